"""C05 -- rename rewrites exactly the references and preserves behaviour.

spec/Rename.tla: occurrences, spellings and the variable each occurrence denotes; TLC checks for every
variable map that renaming to a fresh name preserves the program iff exactly one class of the partition is
rewritten.  spec->code / code->spec: generated executable single-module programs (shadowing, closures,
global/nonlocal, classes, attributes, methods, comprehensions) and a multi-module project; for EVERY
identifier occurrence: get_references from every reported member (partition), rename to a fresh name (byte
comparison of the rewritten spans, announced file renames applied in a scratch copy), both programs
executed, rename back.  Python's symbol tables give the Reference classes of lexical variables.  Every
occurrence is an event judged by Trace_Rename.tla.
"""
import ast
import contextlib
import io
import keyword
import os
import random
import re
import shutil
import subprocess
import symtable
import sys
import tokenize

from harness import jutil
from harness.core import MachineryError, PY
from harness.tlc import run_tlc, validate_traces

META = dict(
    spec='Rename.tla, Trace_Rename.tla',
    text='TLC checks on every variable map of 4-5 occurrences x 2-3 spellings that a rename to a fresh name keeps the '
         'partition of occurrences (= behaviour) iff exactly one reference class is rewritten (whole class preserves, '
         'subset splits, superset merges). On generated executable programs and a multi-module project every lexical '
         'identifier occurrence is renamed: get_references is asked from every reported occurrence (partition), the new '
         'code must differ from the old exactly at the reported occurrences, the class must equal the one Python\'s '
         'symbol tables give (lexical variables), old and new program must print and raise the same, and renaming back '
         'must restore the bytes; file/package renames are applied in a scratch copy. TLC judges every occurrence.',
    note='Protocol names (dunder), builtins and names reached via strings are excluded as in the property; the symtable '
         'class is only demanded for variables/parameters/functions/classes of single-module programs (attributes and '
         'cross-module names are judged by partition, exact rewrite, behaviour and round trip).',
    technique='TLA+ rename algebra model-checked with TLC; every identifier occurrence of generated programs renamed on '
              'the real code with CPython (symtable + execution) as oracle; occurrences validated by TLC',
    design_ref='5/C05')

NAMES = ['alpha', 'beta', 'gamma']
WIDE = ['alpha', 'beta', 'gamma', 'delta', 'epsil', 'zeta', 'theta', 'kappa', 'lambd', 'sigma', 'omega', 'tau_x', 'rho_x', 'chi_x', 'psi_x', 'phi_x', 'eta_x', 'iota_x', 'mu_x', 'nu_x']
PRIORITY = ['nonlocal', 'param-rebound', 'class-attr', 'module-for', 'comp-var', 'global', 'import-alias']


# ---------------------------------------------------------------- program generator
def gen_program(rng):
    """A small executable module with shadowing between module, function, nested function, class and
    comprehension scopes over a 3-name pool."""
    clean = rng.random() < 0.6
    if clean:                        # every role gets its own spelling: no shadowing, no attribute namesakes
        pool = list(WIDE)
        rng.shuffle(pool)
        n = lambda: pool.pop()       # noqa
        a, b, c = n(), n(), n()
    else:
        n = lambda: rng.choice(NAMES)   # noqa
        a, b, c = rng.sample(NAMES, 3)
    L = []
    L.append('%s = 1' % a)
    L.append('%s = [%s, 2]' % (b, a))
    fn = 'func_' + n()
    p1, p2 = (n(), n()) if clean else rng.sample(NAMES, 2)
    L.append('def %s(%s, %s=3):' % (fn, p1, p2))
    loc = n()
    L.append('    %s = %s + %s' % (loc, p1, p2))
    style = rng.choice(['closure', 'nonlocal', 'global', 'comp', 'plain'])
    if clean and style == 'nonlocal':
        style = 'closure'
    if style == 'global' and c in (loc, p1, p2):
        style = 'plain'
    if style == 'closure':
        L += ['    def inner(%s):' % n(), '        return %s + %s' % (loc, p1), '    return inner(%s)' % loc]
    elif style == 'nonlocal':
        L += ['    def inner():', '        nonlocal %s' % loc, '        %s = %s * 2' % (loc, loc), '        return %s' % loc,
              '    return inner() + %s' % loc]
    elif style == 'global':
        L += ['    global %s' % c, '    %s = %s' % (c, loc), '    return %s' % c]
        if rng.random() < 0.5:       # the global also has a module-level binding (before the function)
            L.insert(2, '%s = 0' % c)
    elif style == 'comp':
        v = n()
        L += ['    return sum([%s * %s for %s in %s if %s])' % (v, p1, v, b, v)]
    else:
        L += ['    return %s' % loc]
    cn = 'Cls' + n().capitalize()
    attr, meth = (n(), n()) if clean else rng.sample(NAMES, 2)
    L.append('class %s:' % cn)
    L.append('    %s = %s' % (attr, a))
    L.append('    def %s(self, %s):' % ('m_' + meth, n()))
    L.append('        self.%s = %s.%s + 1' % (attr, cn, attr))
    L.append('        return self.%s' % attr)
    if rng.random() < 0.5:
        L.append('    def other(self):')
        L.append('        return self.m_%s(%s)' % (meth, a))
    L.append('obj = %s()' % cn)
    L.append('print(%s(%s), obj.m_%s(2), obj.%s, %s)' % (fn, a, meth, attr, b))
    if rng.random() < 0.5:
        fv = n() if clean else a
        L.append('for %s in %s:' % (fv, b))
        L.append('    print(%s)' % fv)
    return '\n'.join(L) + '\n'


def run_src(src, cwd=None, argv0='prog.py'):
    buf = io.StringIO()
    try:
        code = compile(src, argv0, 'exec')
    except SyntaxError:
        return ('SyntaxError', '')
    try:
        with contextlib.redirect_stdout(buf):
            exec(code, {'__name__': '__main__'})
        return ('ok', buf.getvalue())
    except Exception as e:  # noqa
        return ('raise:' + type(e).__name__, buf.getvalue())


def identifiers(src):
    """[(line, col, text)] of identifier tokens (no keywords, no dunder/protocol names, no builtins)."""
    import builtins
    out = []
    for t in tokenize.generate_tokens(io.StringIO(src).readline):
        if t.type == tokenize.NAME and not keyword.iskeyword(t.string) and not t.string.startswith('__') \
                and not hasattr(builtins, t.string) and t.string != 'self':
            out.append((t.start[0], t.start[1], t.string))
    return out


# ---------------------------------------------------------------- Reference classes from symtable + ast
def symtable_classes(src):
    """occurrence (line, col) -> key of the variable it denotes, for Name / arg / def / class / global / nonlocal
    occurrences (not attributes).  key = (owner scope id, name)."""
    tree = ast.parse(src)
    top = symtable.symtable(src, '<c05>', 'exec')
    out = {}

    def child_table(tab, node):
        for ch in tab.get_children():
            if ch.get_lineno() == node.lineno and ch.get_name() == getattr(node, 'name', None):
                return ch
        kinds = {ast.Lambda: 'lambda', ast.ListComp: 'listcomp', ast.SetComp: 'setcomp', ast.DictComp: 'dictcomp',
                 ast.GeneratorExp: 'genexpr'}
        for ch in tab.get_children():
            if ch.get_lineno() == node.lineno and ch.get_name() == kinds.get(type(node)):
                return ch
        return None

    overlays = []      # comprehension scopes inlined by the compiler (PEP 709): [(id, {target names})]

    def owner(chain, name):
        """Resolve name used in chain[-1] to the scope that owns the binding."""
        for oid, names in reversed(overlays):
            if name in names:
                return (oid, name)
        tab = chain[-1]
        try:
            sym = tab.lookup(name)
        except KeyError:
            return ('?', name)
        if sym.is_global() or tab.get_type() == 'module':
            return (id(chain[0]), name)
        if sym.is_local() and not sym.is_free():
            # a class-level name is an attribute: its references include attribute accesses, which the
            # symbol tables do not know
            return ('?' if tab.get_type() == 'class' else id(tab), name)
        for anc in reversed(chain[:-1]):        # free variable: nearest enclosing function scope binding it
            if anc.get_type() == 'function':
                try:
                    s2 = anc.lookup(name)
                except KeyError:
                    continue
                if s2.is_local() or s2.is_parameter():
                    return (id(anc), name)
        return (id(chain[0]), name)

    def visit(node, chain):
        if isinstance(node, (ast.FunctionDef, ast.AsyncFunctionDef, ast.ClassDef)):
            # the name of the def/class is bound in the enclosing scope, at the position after the keyword
            line = src.split('\n')[node.lineno - 1]
            m = re.compile(r'(def|class)\s+' + re.escape(node.name)).search(line, node.col_offset)
            if m:
                out[(node.lineno, m.end() - len(node.name))] = owner(chain, node.name)
            for d in node.decorator_list:
                visit(d, chain)
            sub = child_table(chain[-1], node)
            if isinstance(node, ast.ClassDef):
                for b in node.bases + [k.value for k in node.keywords]:
                    visit(b, chain)
            else:
                for d in node.args.defaults + [d for d in node.args.kw_defaults if d]:
                    visit(d, chain)
            if sub is None:
                return
            nchain = chain + [sub]
            if not isinstance(node, ast.ClassDef):
                for a in node.args.posonlyargs + node.args.args + node.args.kwonlyargs + \
                        [x for x in (node.args.vararg, node.args.kwarg) if x]:
                    out[(a.lineno, a.col_offset)] = (id(sub), a.arg)
            for st in node.body:
                visit(st, nchain)
            return
        if isinstance(node, (ast.ListComp, ast.SetComp, ast.DictComp, ast.GeneratorExp)):
            sub = child_table(chain[-1], node)
            gens = node.generators
            visit(gens[0].iter, chain)           # the first iterable is evaluated outside
            if sub is None:
                # inlined comprehension: its targets form a scope of their own, everything else resolves outside
                names = set()
                for g in gens:
                    for t in ast.walk(g.target):
                        if isinstance(t, ast.Name):
                            names.add(t.id)
                overlays.append((('comp', node.lineno, node.col_offset), names))
                for i, g in enumerate(gens):
                    visit(g.target, chain)
                    if i > 0:
                        visit(g.iter, chain)
                    for c in g.ifs:
                        visit(c, chain)
                for f in ('elt', 'key', 'value'):
                    if hasattr(node, f):
                        visit(getattr(node, f), chain)
                overlays.pop()
                return
            nchain = chain + [sub]
            for i, g in enumerate(gens):
                visit(g.target, nchain)
                if i > 0:
                    visit(g.iter, nchain)
                for c in g.ifs:
                    visit(c, nchain)
            for f in ('elt', 'key', 'value'):
                if hasattr(node, f):
                    visit(getattr(node, f), nchain)
            return
        if isinstance(node, ast.Lambda):
            sub = child_table(chain[-1], node)
            if sub is not None:
                for a in node.args.args:
                    out[(a.lineno, a.col_offset)] = (id(sub), a.arg)
                visit(node.body, chain + [sub])
            return
        if isinstance(node, ast.Name):
            out[(node.lineno, node.col_offset)] = owner(chain, node.id)
        if isinstance(node, (ast.Global, ast.Nonlocal)):
            line = src.split('\n')[node.lineno - 1]
            pos = node.col_offset
            for nm in node.names:
                m = re.compile(r'\b' + re.escape(nm) + r'\b').search(line, pos + 6)
                if m:
                    out[(node.lineno, m.start())] = owner(chain, nm)
                    pos = m.end() - 6
        for ch in ast.iter_child_nodes(node):
            visit(ch, chain)
    for st in tree.body:
        visit(st, [top])
    return out


def roles_and_tags(src):
    """occurrence (line, col) -> syntactic role; name -> feature tags of how the program uses that spelling."""
    tree = ast.parse(src)
    roles, tags = {}, {}

    def tag(n, t):
        tags.setdefault(n, set()).add(t)
    lines = src.split('\n')
    attrish, varish = set(), set()
    for node in ast.walk(tree):
        if isinstance(node, ast.Name):
            roles[(node.lineno, node.col_offset)] = 'store' if isinstance(node.ctx, (ast.Store, ast.Del)) else 'load'
        elif isinstance(node, ast.arg):
            roles[(node.lineno, node.col_offset)] = 'param'
        elif isinstance(node, (ast.FunctionDef, ast.ClassDef)):
            m = re.compile(r'(def|class)\s+' + re.escape(node.name)).search(lines[node.lineno - 1], node.col_offset)
            if m:
                roles[(node.lineno, m.end() - len(node.name))] = 'def' if isinstance(node, ast.FunctionDef) else 'class'
            if isinstance(node, ast.FunctionDef):
                params = {a.arg for a in node.args.args}
                for sub in ast.walk(node):
                    if isinstance(sub, ast.Name) and isinstance(sub.ctx, ast.Store) and sub.id in params:
                        tag(sub.id, 'param-rebound')
            else:
                for st in node.body:
                    if isinstance(st, ast.Assign):
                        for t in st.targets:
                            if isinstance(t, ast.Name):
                                attrish.add(t.id)
                                t._class_level = True
                    if isinstance(st, ast.FunctionDef):
                        attrish.add(st.name)
        elif isinstance(node, ast.Attribute):
            roles[(node.end_lineno, node.end_col_offset - len(node.attr))] = 'attr'
            attrish.add(node.attr)
        elif isinstance(node, (ast.Global, ast.Nonlocal)):
            pos = node.col_offset
            for nm in node.names:
                m = re.compile(r'\b' + re.escape(nm) + r'\b').search(lines[node.lineno - 1], pos + 6)
                if m:
                    roles[(node.lineno, m.start())] = 'global-decl' if isinstance(node, ast.Global) else 'nonlocal-decl'
                tag(nm, 'global' if isinstance(node, ast.Global) else 'nonlocal')
        elif isinstance(node, ast.For) and node.col_offset == 0 and isinstance(node.target, ast.Name):
            tag(node.target.id, 'module-for')
        elif isinstance(node, ast.comprehension) and isinstance(node.target, ast.Name):
            tag(node.target.id, 'comp-var')
    for node in ast.walk(tree):
        if isinstance(node, ast.Name) and not getattr(node, '_class_level', False):
            varish.add(node.id)
        elif isinstance(node, ast.arg):
            varish.add(node.arg)
    for nm in attrish & varish:          # one spelling for an attribute/method AND for a variable
        tag(nm, 'class-attr')
    return roles, tags


SHAPES = [
    # two unrelated classes with a same-named method, joined only by a union-typed receiver
    '''flag_zz = len(str(id(object))) > 50
class Cat:
    def speak(self):
        return 'meow'
class Dog:
    def speak(self):
        return 'woof'
rex = Dog()
print(rex.speak())
pet = Cat() if flag_zz else rex
print(pet.speak())
''',
    # override in a subclass, called through the base
    '''class Base:
    def render(self):
        return self.part() + '!'
    def part(self):
        return 'base'
class Child(Base):
    def part(self):
        return 'child'
for item in (Base(), Child()):
    print(item.render(), item.part())
''',
    # function alias and higher-order use
    '''def compute(value):
    return value * 2
alias_fn = compute
def apply(fn, arg):
    return fn(arg)
print(apply(compute, 2), alias_fn(3), apply(alias_fn, 4))
''',
    # module-level counter through global, closure reading an enclosing variable
    '''counter = 0
def bump(step):
    global counter
    counter = counter + step
    return counter
def make_adder(amount):
    def adder(number):
        return number + amount
    return adder
print(bump(2), bump(3), counter, make_adder(5)(1))
''',
    # keyword arguments, defaults referring to module names, a decorator
    '''scale = 3
def logged(func):
    def wrapper(*args, **kwargs):
        return func(*args, **kwargs)
    return wrapper
@logged
def area(width, height=scale):
    return width * height
print(area(2), area(width=2, height=5), area(height=1, width=scale))
''',
    # the same without the decorator
    '''scale = 3
def area(width, height=scale):
    return width * height
def volume(width, height, depth=1):
    return area(width, height=height) * depth
print(area(2), area(width=2, height=5), area(height=1, width=scale), volume(1, depth=2, height=3))
''',
    # a class attribute computed from the module variable of the same name (the read in the class body sees the module's)
    '''rate = 3
def quote(count):
    return count * rate
class Plan:
    rate = rate * 2
    label = 'x%d' % rate
print(quote(4), Plan.rate, Plan.label, rate)
''',
    # a parameter re-bound from its own value
    '''def ext(path, sep):
    path = path.strip()
    parts = path.split(sep)
    return parts
print(ext(' a/b ', '/'))
''',
    # instance attributes set in several methods, class attribute read through the class and the instance
    '''class Account:
    rate = 2
    def __init__(self, balance):
        self.balance = balance
        self.history = []
    def deposit(self, amount):
        self.balance = self.balance + amount
        self.history.append(amount)
        return self.balance * Account.rate
acct = Account(10)
print(acct.deposit(5), acct.balance, acct.history, acct.rate, Account.rate)
''',
]

SHAPE_NAMES = ['union-receiver', 'override', 'function-alias', 'global-closure', 'decorated-kwargs', 'kwargs',
               'class-rebind', 'param-rebind', 'instance-attrs']
assert len(SHAPE_NAMES) == len(SHAPES)


# ---------------------------------------------------------------- one program: all occurrences
def occurrences_job(arg):
    kind, src, seed = arg
    import jedi
    from jedi.api.exceptions import RefactoringError
    rng = random.Random(seed)
    idents = identifiers(src)
    occ_id = {(l, c): i + 1 for i, (l, c, _) in enumerate(idents)}
    try:
        classes = symtable_classes(src)
    except SyntaxError:
        classes = {}
    before = run_src(src)
    events, infos = [], []
    try:
        roles, tags = roles_and_tags(src)
    except SyntaxError:
        roles, tags = {}, {}
    picks = idents if len(idents) <= 45 else rng.sample(idents, 45)
    kwocc = []
    try:
        for node in ast.walk(ast.parse(src)):
            if isinstance(node, ast.keyword) and node.arg and (node.lineno, node.col_offset) in occ_id:
                kwocc.append(occ_id[(node.lineno, node.col_offset)])
    except SyntaxError:
        pass
    kwocc.sort()
    for (l, c, text) in picks:
        s = jedi.Script(src)
        info = {'line': l, 'col': c, 'name': text, 'role': roles.get((l, c), 'other'),
                'tags': sorted(tags.get(text, ()))}
        try:
            refs = [(d.line, d.column) for d in s.get_references(l, c, include_builtins=False) if d.module_path is None]
            ref = s.rename(l, c, new_name='fresh_zz')
            new = ref.get_changed_files()[None].get_new_code() if None in ref.get_changed_files() else src
            outcome = 'ok'
        except RefactoringError:
            events.append(_ev('RefactoringError'))
            infos.append(info)
            continue
        except Exception as e:  # noqa
            from harness.core import crash_key
            info['crash'] = crash_key(e)
            events.append(_ev('Internal'))
            infos.append(info)
            continue
        refsets = [sorted(occ_id.get(p, 0) for p in refs)]
        for (rl, rc) in refs[:8]:
            try:
                other = [(d.line, d.column) for d in jedi.Script(src).get_references(rl, rc, include_builtins=False)
                         if d.module_path is None]
                refsets.append(sorted(occ_id.get(p, 0) for p in other))
            except Exception:  # noqa
                refsets.append([0])
        # which occurrences did the new code rewrite?  (byte comparison)
        rewritten, extra = diff_occurrences(src, new, idents, text, 'fresh_zz')
        key = classes.get((l, c))
        known = key is not None and key[0] != '?'
        refclass = sorted(occ_id[p] for p, k in classes.items() if known and k == key and p in occ_id)
        after = run_src(new)
        # round trip
        rt = False
        try:
            m = re.search(r'\bfresh_zz\b', new)
            if m:
                l2 = new.count('\n', 0, m.start()) + 1
                c2 = m.start() - (new.rfind('\n', 0, m.start()) + 1)
                back = jedi.Script(new).rename(l2, c2, new_name=text).get_changed_files()[None].get_new_code()
                rt = back == src
            else:
                rt = new == src
        except Exception:  # noqa
            rt = False
        ev = _ev('ok')
        ev.update(refsets=refsets, kwrefs=kwocc, rewritten=sorted(occ_id[(a, b)] for (a, b) in rewritten), extra=extra,
                  refclass=refclass, known=bool(known), samerun=after == before, roundtrip=bool(rt))
        events.append(ev)
        info.update(refs=refs, rewritten=rewritten, refclass=[p for p, k in classes.items() if known and k == key],
                    before=before[0], after=after[0])
        infos.append(info)
    return {'kind': kind, 'src': src, 'events': events, 'infos': infos}


def _ev(outcome):
    return {'outcome': outcome, 'refsets': [[0]], 'kwrefs': [], 'rewritten': [], 'extra': 0, 'refclass': [], 'known': False,
            'samerun': True, 'roundtrip': True}


def diff_occurrences(src, new, idents, old_name, new_name):
    """Replace candidate occurrences of old_name one by one: find the subset S of occurrences such that
    src with S renamed equals new.  Returns (S, number of bytes different elsewhere)."""
    lines = src.split('\n')
    cands = [(l, c) for (l, c, t) in idents if t == old_name]
    # walk both texts in parallel
    out = []
    i = j = 0
    pos_of = {}
    off = 0
    offs = []
    for ln in lines:
        offs.append(off)
        off += len(ln) + 1
    starts = {offs[l - 1] + c: (l, c) for (l, c) in cands}
    extra = 0
    while i < len(src) and j < len(new):
        if i in starts and new.startswith(new_name, j) and src.startswith(old_name, i) and \
                not (new.startswith(old_name, j) and old_name != new_name and not new_name.startswith(old_name)):
            out.append(starts[i])
            i += len(old_name)
            j += len(new_name)
            continue
        if src[i] != new[j]:
            extra += 1
        i += 1
        j += 1
    extra += (len(src) - i) + (len(new) - j)
    return out, extra


# ---------------------------------------------------------------- multi-module project
def project_job(arg):
    workdir, idx, seed = arg
    import jedi
    from jedi.api.exceptions import RefactoringError
    from harness.props import c07
    rng = random.Random(seed)
    root = os.path.join(workdir, 'm%d' % idx)
    shutil.rmtree(root, True)
    os.makedirs(root)
    c07.make_project(root, '\n', True, rng)
    rel = rng.choice(['main_prog.py', 'main_prog.py', 'helper_mod.py', 'pkg_one/sub_mod.py'])
    path = os.path.join(root, rel)
    src = open(path, encoding='utf-8').read()
    idents = identifiers(src)
    l, c, text = rng.choice(idents)

    def run_project(r):
        p = subprocess.run([PY, 'main_prog.py'], cwd=r, capture_output=True, text=True, timeout=60,
                           env=dict(os.environ, PYTHONPATH=r, PYTHONDONTWRITEBYTECODE='1'))
        err = p.stderr.strip().split('\n')[-1].split(':')[0] if p.returncode else ''
        return (p.returncode != 0, err, p.stdout)
    before = run_project(root)
    line_txt = src.split('\n')[l - 1]
    tags = []
    if re.search(r'\bas\s+' + re.escape(text) + r'\b', line_txt) or text in ('imported_fn',):
        tags.append('import-alias')
    info = {'file': rel, 'line': l, 'col': c, 'name': text, 'role': 'project', 'tags': tags}
    ev = _ev('ok')
    try:
        proj = jedi.Project(root)
        s = jedi.Script(src, path=path, project=proj, environment=jutil.env())
        # (a module itself is reported as a reference at (1, 0) of its file: that is the file, not a text occurrence;
        #  it is covered by get_renames())
        refs = sorted((os.path.relpath(str(d.module_path), root), d.line, d.column)
                      for d in s.get_references(l, c, include_builtins=False)
                      if d.module_path and d.line and not (d.type == 'module' and (d.line, d.column) == (1, 0)))
        ref = s.rename(l, c, new_name='fresh_zz')
        changed = {os.path.relpath(str(p), root): cf.get_new_code() for p, cf in ref.get_changed_files().items()}
        renames = [(os.path.relpath(str(a), root), os.path.relpath(str(b), root)) for a, b in ref.get_renames()]
    except RefactoringError:
        shutil.rmtree(root, True)
        return {'info': info, 'event': _ev('RefactoringError')}
    except Exception as e:  # noqa
        from harness.core import crash_key
        info['crash'] = crash_key(e)
        shutil.rmtree(root, True)
        return {'info': info, 'event': _ev('Internal')}
    # ids over (file, line, col)
    ids = {}

    def oid(k):
        return ids.setdefault(k, len(ids) + 1)
    refset = sorted(oid(r) for r in refs)
    refsets = [refset]
    for (f, rl, rc) in refs[:5]:
        try:
            p2 = os.path.join(root, f)
            s2 = jedi.Script(open(p2, encoding='utf-8').read(), path=p2, project=proj, environment=jutil.env())
            o = sorted(oid((os.path.relpath(str(d.module_path), root), d.line, d.column))
                       for d in s2.get_references(rl, rc, include_builtins=False)
                       if d.module_path and d.line and not (d.type == 'module' and (d.line, d.column) == (1, 0)))
            refsets.append(o)
        except Exception:  # noqa
            refsets.append([0])
    rewritten, extra = [], 0
    for f, new in changed.items():
        old = open(os.path.join(root, f), encoding='utf-8').read()
        got, ex = diff_occurrences(old, new, identifiers(old), text, 'fresh_zz')
        rewritten += [oid((f, a, b)) for (a, b) in got]
        extra += ex
    # module names in import statements are references too but spelled by file name: they are rewritten as well
    try:
        ref.apply()
        after = run_project(root)
    except Exception as e:  # noqa
        after = (True, 'apply:' + type(e).__name__, '')
    ev.update(refsets=refsets, rewritten=sorted(rewritten), extra=extra, refclass=[], known=False,
              samerun=after == before, roundtrip=True)
    info.update(refs=refs, changed=sorted(changed), renames=renames, before=list(before[:2]), after=list(after[:2]))
    shutil.rmtree(root, True)
    return {'info': info, 'event': ev}


CFG = '''SPECIFICATION Spec
CONSTANTS
  N = %d
  Spellings = {%s}
  Fresh = "fresh"
INVARIANT WholeClassPreserves
INVARIANT SubsetBreaks
INVARIANT SupersetBreaks
INVARIANT Exactly
CHECK_DEADLOCK FALSE
'''


def run(ctx):
    quick = ctx.quick
    p = os.path.join(ctx.tmp, 'mc.cfg')
    with open(p, 'w') as f:
        f.write(CFG % ((4, '"a", "b"') if quick else (5, '"a", "b", "c"')))
    res = run_tlc('Rename', p, workers=16, timeout=3000)
    ctx.add_tlc(res, 'rename algebra: exactly a class <=> partition preserved')
    if res.violated:
        raise MachineryError('Rename.tla theorem %s fails' % res.violated)
    if res.distinct < 10000:
        raise MachineryError('vacuity: %d states' % res.distinct)
    ctx.coverage['exhaustive'] = True
    rng = ctx.rng
    nprog = 40 if quick else 400
    progs = []
    seen = set()
    while len(progs) < nprog:
        src = gen_program(rng)
        if src in seen:
            continue
        seen.add(src)
        if run_src(src)[0] == 'SyntaxError':
            continue
        progs.append(('generated', src, ctx.seed * 1000 + len(progs)))
    for i, sh in enumerate(SHAPES):
        progs.append(('shape:' + SHAPE_NAMES[i], sh, ctx.seed * 1000 + 900 + i))
    ctx.log('%d generated programs' % len(progs))
    res1 = jutil.pmap(occurrences_job, progs, chunksize=1)
    jutil.check_worker_errors(res1)
    work = ctx.sub('c05')
    nproj = 60 if quick else 600
    res2 = jutil.pmap(project_job, [(work, i, ctx.seed * 5000 + i) for i in range(nproj)], chunksize=2)
    jutil.check_worker_errors(res2)
    traces, owners = [], []
    for r in res1:
        for ev, info in zip(r['events'], r['infos']):
            traces.append([ev])
            owners.append((r['kind'], dict(info, source=r['src'])))
    for r in res2:
        traces.append([r['event']])
        owners.append(('project', r['info']))
    ctx.coverage['occurrences_renamed'] = sum(1 for t in traces if t[0]['outcome'] == 'ok')
    ctx.coverage['occurrences_with_symtable_class'] = sum(1 for t in traces if t[0]['known'])
    if ctx.coverage['occurrences_with_symtable_class'] < 100:
        raise MachineryError('vacuity: too few occurrences with a symtable class')
    vs = validate_traces('Trace_Rename', 'Trace_Rename.cfg', traces, ctx, 'Trace_Rename', chunk=3000)
    blocked = {}
    for v, (kind, info) in zip(vs, owners):
        if v['accepted']:
            continue
        why = ','.join(v['why'] or ['?'])
        if 'crash' in info:
            # an internal exception produces no rewrite at all: totality is property C01 (whose check sweeps rename over
            # token soups and corpus prefixes); here the occurrence is counted as blocked
            blocked[info['crash'].split('<')[0]] = blocked.get(info['crash'].split('<')[0], 0) + 1
        else:
            tg = info.get('tags', [])
            primary = next((t for t in PRIORITY if t in tg), 'plain')
            shape = '%s|cursor=%s|%s' % (primary, info.get('role', '-'), why)
            ctx.violation('%s:%s' % (kind, shape), 'rename of an occurrence violates %s' % why, info)
    ctx.coverage['occurrences_blocked_by_internal_error'] = blocked
    if sum(blocked.values()) > 0.15 * len(traces):
        raise MachineryError('vacuity: %d of %d renames end in an internal exception: %s' % (sum(blocked.values()), len(traces), blocked))
    ctx.sample({'program': progs[0][1], 'occurrences': len(res1[0]['events'])})
    ctx.sample({'project_occurrence': res2[0]['info']})
    bad = None
    for t in traces:
        if t[0]['outcome'] == 'ok' and len(t[0]['rewritten']) > 1:
            bad = [dict(t[0], rewritten=t[0]['rewritten'][:-1])]
            break
    if bad is None:
        raise MachineryError('binding self-test: no multi-occurrence rename recorded')
    n0 = ctx.coverage['traces_validated_against_impl']
    bv = validate_traces('Trace_Rename', 'Trace_Rename.cfg', [bad], ctx, 'binding self-test')
    ctx.coverage['traces_validated_against_impl'] = n0
    if bv[0]['accepted']:
        raise MachineryError('binding self-test: incomplete rewrite accepted')
    ctx.coverage['binding_selftest'] = 'incomplete rewrite rejected: %s' % bv[0]['why']
    return None
