"""C07 -- refactoring results are self-consistent and touch nothing until applied.

spec/RefLife.tla: the request / inspect / apply lifecycle as a state machine over a file system
(checked exhaustively by TLC) plus the unified-diff algebra (Patch, Applicable, MinusLines).
Every refactoring request executed on real project copies becomes a trace (Request, Inspect with the
real diff parsed into hunks over line ids, Apply with file-system snapshots) that TLC judges with
Trace_RefLife.tla: the patch is evaluated by TLC, not by difflib.
"""
import os
import random
import re
import shutil

from harness import jutil
from harness.core import MachineryError
from harness.tlc import run_tlc, validate_traces

META = dict(
    spec='RefLife.tla, Trace_RefLife.tla',
    text='TLC checks the lifecycle model exhaustively (3 paths, 2 contents, <=2 changed files, <=1 rename, '
         'path-less buffer): nothing is written before apply, writes hit existing files because they precede the '
         'renames, apply produces exactly the announced file system. Every real request (rename / inline / '
         'extract_variable / extract_function x generated and corpus sources in LF/CRLF, with/without final '
         'newline, unicode identifiers, cross-module and package renames x positions and ranges x inspect/apply) '
         'is recorded with the real get_diff() parsed into hunks over line ids; TLC applies the patch '
         '(Applicable, Patch = get_new_code), checks FilesAgree, UntouchedText, NothingBeforeApply, '
         'ApplyAnnounced and the error-type clause.',
    note='Lines are compared by identity of their bytes including the ending; touched lines are derived from '
         'get_references / the enclosing statement via parso; lone-CR files are outside the stated quantifier.',
    technique='TLA+ lifecycle state machine model-checked with TLC; real refactoring runs validated as traces '
              'against the spec with the unified diff applied inside TLC',
    design_ref='5/C07')

# ---------------------------------------------------------------- projects
MAIN = '''import helper_mod
from pkg_one import sub_mod
from pkg_one.sub_mod import shared_fn as imported_fn


# a comment that must survive
GLOBAL_VALUE = 10


def compute_total(first_arg, second_arg=2):
    """Docstring stays."""
    inner_val = first_arg + second_arg * GLOBAL_VALUE
    other_val = helper_mod.helper_fn(inner_val)   # trailing comment
    if other_val > 3:
        return inner_val + other_val
    return imported_fn(inner_val)


class Holder:
    class_attr = 5

    def __init__(self, start):
        self.current = start

    def bump(self, amount):
        tmp_sum = self.current + amount
        self.current = tmp_sum * Holder.class_attr
        return self.current


único = compute_total(1)
result_obj = Holder(único)
print(result_obj.bump(sub_mod.CONST_ONE))
'''
# (both modules refer to themselves by their absolute name: a rename of the module / package changes the text of the
# very file that is renamed)
HELPER = '''import helper_mod


def helper_fn(value):
    doubled = value * 2
    return doubled


def unused_fn():
    return helper_mod.helper_fn(1)
'''
SUB = '''import pkg_one.sub_mod

CONST_ONE = 1


def shared_fn(x):
    y = x + pkg_one.sub_mod.CONST_ONE
    return y
'''


def make_project(root, ending, final_newline, rng):
    os.makedirs(os.path.join(root, 'pkg_one'))
    os.makedirs(os.path.join(root, 'pkg_onesie'))       # a sibling whose name has pkg_one as prefix
    files = {'main_prog.py': MAIN, 'helper_mod.py': HELPER, 'pkg_one/__init__.py': '',
             'pkg_one/sub_mod.py': SUB, 'pkg_onesie/__init__.py': 'from pkg_one import sub_mod\nVAL = sub_mod.CONST_ONE\n'}
    for rel, txt in files.items():
        if not final_newline and txt.endswith('\n'):
            txt = txt[:-1]
        txt = txt.replace('\n', ending)
        with open(os.path.join(root, rel), 'w', newline='', encoding='utf-8') as f:
            f.write(txt)
    return sorted(files)


def snapshot(root):
    out = {}
    for d, dirs, fs in os.walk(root):
        dirs[:] = [x for x in dirs if x != '__pycache__' and x != '.jedi']
        for fn in fs:
            p = os.path.join(d, fn)
            with open(p, 'rb') as f:
                out[os.path.relpath(p, root)] = f.read()
    return out


def split_keep(s):
    """split_lines(keepends=True) by the documented rule, without a trailing empty string."""
    out = re.findall(r'[^\r\n]*(?:\r\n|\n|\r)|[^\r\n]+\Z', s)
    return out


def line_table(src):
    out, pos = [], 0
    for m in re.finditer(r'\r\n|\n|\r', src):
        out.append(m.start() - pos)
        pos = m.end()
    out.append(len(src) - pos)
    return out


# ---------------------------------------------------------------- diff parsing
def parse_diff(text):
    """-> (rename pairs, {(from, to): hunks}); a hunk = dict(os, ol, ns, nl, ops=[(kind, line bytes)])."""
    lines = re.findall(r'[^\n]*\n|[^\n]+\Z', text)
    renames, files = [], {}
    i = 0
    cur = None
    while i < len(lines):
        ln = lines[i]
        if ln.startswith('rename from '):
            renames.append([ln[len('rename from '):].rstrip('\n'), lines[i + 1][len('rename to '):].rstrip('\n')])
            i += 2
        elif ln.startswith('--- ') and i + 1 < len(lines) and lines[i + 1].startswith('+++ '):
            cur = files.setdefault((ln[4:].rstrip('\n'), lines[i + 1][4:].rstrip('\n')), [])
            i += 2
        elif ln.startswith('@@ '):
            m = re.match(r'@@ -(\d+)(?:,(\d+))? \+(\d+)(?:,(\d+))? @@', ln)
            if not m or cur is None:
                return None
            h = {'os': int(m.group(1)), 'ol': int(m.group(2) or 1), 'ns': int(m.group(3)), 'nl': int(m.group(4) or 1), 'ops': []}
            i += 1
            need_o, need_n = h['ol'], h['nl']
            # the hunk body ends where the counts are met, or early at the next header / end of text
            # (whether an early end is acceptable is decided by the spec, see DiffPhantomLastLine)
            while (need_o > 0 or need_n > 0) and i < len(lines):
                k = lines[i][:1]
                if k not in ' -+' or lines[i].startswith(('--- ', '+++ ')) and need_o <= 1 and need_n <= 1:
                    break
                if lines[i][1:] != '':          # a zero-length line can only be the phantom last element
                    h['ops'].append((k, lines[i][1:]))
                if k in ' -':
                    need_o -= 1
                if k in ' +':
                    need_n -= 1
                i += 1
            cur.append(h)
        else:
            return None         # not a well-formed unified diff
    return renames, files


# ---------------------------------------------------------------- one request
def stmt_range(src, line, outer=False, col=0, with_prefix=True):
    """Lines of the smallest simple/compound statement covering (line, col) (parso, not jedi).  With outer=True:
    the enclosing top-level statement, and -- because a position in the whitespace between two statements
    belongs to the prefix of the NEXT one while parso reports the previous leaf -- the union with the
    statement of the following leaf."""
    import parso
    mod = parso.parse(src)
    leaf = mod.get_leaf_for_position((line, col), include_prefixes=True)

    def rng(n):
        while n is not None and n.type not in ('simple_stmt', 'funcdef', 'classdef', 'if_stmt', 'for_stmt', 'while_stmt',
                                               'try_stmt', 'with_stmt', 'decorated', 'file_input'):
            n = n.parent
        if n is None or n.type == 'file_input':
            return line, line
        if outer:
            while n.parent is not None and n.parent.type != 'file_input':
                n = n.parent
        first = n.get_first_leaf()
        # extract_*: comments / blank lines before the statement travel with it.  inline: the definition statement
        # disappears, the comments and blank lines in front of it are NOT part of it and must stay
        start = first.start_pos[0] - (first.prefix.count('\n') if with_prefix else 0)
        return start, n.end_pos[0]
    a, b = rng(leaf)
    if outer and leaf is not None:
        nxt = leaf.get_next_leaf()
        if nxt is not None:
            a2, b2 = rng(nxt)
            a, b = min(a, a2), max(b, b2)
    return a, b


def do_request(arg):
    (workdir, idx, ending, final_newline, kind, target, seed, mode) = arg
    import jedi
    from jedi.api.exceptions import RefactoringError
    rng = random.Random(seed)
    root = os.path.join(workdir, 'p%d' % idx)
    if os.path.exists(root):
        shutil.rmtree(root)
    os.makedirs(root)
    make_project(root, ending, final_newline, rng)
    rel = target
    path = os.path.join(root, rel)
    with open(path, encoding='utf-8', newline='') as f:
        src = f.read()
    table = line_table(src)
    # position: an identifier occurrence (mostly) or an arbitrary / invalid position
    idents = [(m.start(), m.end()) for m in re.finditer(r'[^\W\d]\w*', src)]
    r = rng.random()
    if r < 0.8 and idents:
        a, b = rng.choice(idents)
        off = rng.randrange(a, b + 1)
        line = src.count('\n', 0, off) + 1 if ending != '\r' else 1
        col = off - (src.rfind('\n', 0, off) + 1)
    elif r < 0.92:
        line = rng.randrange(1, len(table) + 1)
        col = rng.randrange(0, table[line - 1] + 1)
    else:
        line = rng.choice([0, len(table) + 1, rng.randrange(1, len(table) + 1)])
        col = rng.choice([table[line - 1] + 1 + rng.randrange(3) if 1 <= line <= len(table) else 0, 0])
    until = None
    if kind in ('extract_variable', 'extract_function') and rng.random() < 0.6 and 1 <= line <= len(table):
        ul = min(len(table), line + rng.choice([0, 0, 0, 1, 2]))
        lo = col + 1 if ul == line else 0
        uc = rng.randrange(min(lo, table[ul - 1]), table[ul - 1] + 1)
        until = (ul, uc)
    posvalid = 1 <= line <= len(table) and 0 <= col <= table[line - 1]
    if until is not None:
        posvalid = posvalid and 1 <= until[0] <= len(table)
    proj = jedi.Project(root)
    script = jedi.Script(src, path=path, project=proj, environment=jutil.env())
    before = snapshot(root)
    events = []
    info = {'kind': kind, 'file': rel, 'line': line, 'col': col, 'until': until, 'ending': repr(ending),
            'final_newline': final_newline, 'mode': mode}
    try:
        if kind == 'rename':
            ref = script.rename(line, col, new_name='renamed_zz')
        elif kind == 'inline':
            ref = script.inline(line, col)
        else:
            kw = {} if until is None else {'until_line': until[0], 'until_column': until[1]}
            ref = getattr(script, kind)(line, col, new_name='extracted_zz', **kw)
        outcome = 'ok'
    except RefactoringError:
        outcome = 'RefactoringError'
    except ValueError as e:
        from harness.core import crash_key
        k = crash_key(e)
        outcome = 'ValueError' if k.split('@')[1].split('<')[0] == 'helpers.py:wrapper' else 'internal:' + k
    except Exception as e:  # noqa
        from harness.core import crash_key
        outcome = 'internal:' + crash_key(e).split('<')[0]
    events.append({'ev': 'Request', 'outcome': outcome if not outcome.startswith('internal') else 'Internal',
                   'posvalid': bool(posvalid)})
    info['outcome'] = outcome
    if outcome != 'ok':
        shutil.rmtree(root, True)
        return {'info': info, 'events': events}
    # ---- inspect
    ids = {}

    def lid(b):
        return ids.setdefault(b, len(ids) + 1)
    try:
        changed = ref.get_changed_files()
        renames = [(str(a), str(b)) for a, b in ref.get_renames()]
        diff = ref.get_diff()
        parsed = parse_diff(diff)
        newcode = {str(p): cf.get_new_code() for p, cf in changed.items()}
    except Exception as e:  # noqa
        from harness.core import crash_key
        info['inspect_crash'] = crash_key(e)
        events.append({'ev': 'Request', 'outcome': 'Internal', 'posvalid': True})   # order violation -> rejected
        shutil.rmtree(root, True)
        return {'info': info, 'events': events}
    after_inspect = snapshot(root)
    pid = {}

    def P(p):
        p = os.path.relpath(p, root) if os.path.isabs(p) else p
        return pid.setdefault(p, len(pid) + 1)
    files_ev = []
    malformed = parsed is None
    diffpaths = []
    if parsed is not None:
        drens, dfiles = parsed
        for (a, b), hunks in dfiles.items():
            diffpaths += [P(a), P(b)]
        for a, b in drens:
            diffpaths += [P(a), P(b)]
    # touched lines
    refs_by_file = {}
    if kind in ('rename', 'inline'):
        try:
            for d in script.get_references(line, col, include_builtins=False):
                if d.module_path is not None and d.line is not None:
                    refs_by_file.setdefault(str(d.module_path), set()).add(d.line)
        except Exception:  # noqa
            pass
    for p, new in newcode.items():
        with open(p, encoding='utf-8', newline='') as f:
            orig = f.read()
        if p == path:
            orig = src
        ol, nl = split_keep(orig), split_keep(new)
        olp = ol[:-1] + [ol[-1] + '\n'] if ol and not ol[-1].endswith(('\n', '\r')) else ol
        nlp = nl[:-1] + [nl[-1] + '\n'] if nl and not nl[-1].endswith(('\n', '\r')) else nl
        touched = set(refs_by_file.get(p, ()))
        if p == path:
            # extract_* normalise the selection to whole nodes: everything inside the enclosing top-level
            # statement may move; text outside it must stay
            a, b = stmt_range(orig, line, outer=kind.startswith('extract'), with_prefix=kind != 'inline') \
                if 1 <= line <= len(ol) else (line, line)
            if until and kind.startswith('extract') and 1 <= until[0] <= len(ol):
                b = max(b, stmt_range(orig, until[0], outer=True, col=until[1])[1])
            if kind == 'inline':
                for rl in list(touched):
                    pass
            if kind != 'rename':
                hi = max(b, until[0] if until else line)
                touched |= set(range(min(a, line), hi + 1))
        if kind == 'inline':
            # the definition statement disappears: its lines are touched
            for rl in list(touched):
                a, b = stmt_range(orig, rl, with_prefix=False)
                touched |= set(range(a, b + 1))
        hunks = []
        if parsed is not None:
            relp = os.path.relpath(p, root)
            for (a, b), hs in parsed[1].items():
                if a == relp:
                    hunks = [{'os': h['os'], 'ol': h['ol'], 'ns': h['ns'], 'nl': h['nl'],
                              'ops': [[k, lid(t)] for k, t in h['ops']]} for h in hs]
        files_ev.append({'path': P(p), 'orig': [lid(x) for x in ol], 'new': [lid(x) for x in nl],
                         'origpad': [lid(x) for x in olp], 'newpad': [lid(x) for x in nlp],
                         'hunks': hunks, 'touched': sorted(touched)})
    if malformed:
        files_ev.append({'path': 0, 'orig': [1], 'new': [2], 'origpad': [1], 'newpad': [2], 'hunks': [], 'touched': []})
    def moved(pth):
        # where a changed file ends up: the renamed file itself, or a file below a renamed directory (path components)
        pp = os.path.normpath(str(pth))
        for a, b in renames:
            a, b = os.path.normpath(str(a)), os.path.normpath(str(b))
            if pp == a:
                pp = b
            elif pp.startswith(a + os.sep):
                pp = b + pp[len(a):]
        return pp
    events.append({'ev': 'Inspect', 'files': files_ev, 'changed': [P(str(p)) for p in changed if p is not None],
                   'changedto': [P(moved(p)) for p in changed if p is not None],
                   'renames': [[P(a), P(b)] for a, b in renames], 'diffpaths': sorted(set(diffpaths)),
                   'fssame': before == after_inspect})
    info.update(changed=[os.path.relpath(str(p), root) for p in changed if p is not None],
                renames=[[os.path.relpath(a, root), os.path.relpath(b, root)] for a, b in renames],
                diff=diff if len(diff) < 3000 else diff[:3000] + '...')
    # ---- apply
    if mode == 'apply':
        try:
            ref.apply()
            aout = 'ok'
        except RefactoringError:
            aout = 'RefactoringError'
        except Exception as e:  # noqa
            aout = 'Internal:' + type(e).__name__
        after = snapshot(root)
        # file-level view of the renames (a directory rename moves every file below it)
        fren = []
        for a, b in renames:
            ra, rb = os.path.relpath(a, root), os.path.relpath(b, root)
            for q in sorted(before):
                if q == ra:
                    fren.append((q, rb))
                elif q.startswith(ra + os.sep):
                    fren.append((q, rb + q[len(ra):]))
        allp = sorted(set(before) | set(after) | {b for _, b in fren})
        cid = {}

        def C(b):
            return 0 if b is None else cid.setdefault(b, len(cid) + 1)
        pidx = {p: i + 1 for i, p in enumerate(allp)}
        events.append({'ev': 'Apply', 'outcome': aout if aout in ('ok', 'RefactoringError') else 'Internal', 'nopath': False,
                       'fs0': [C(before.get(p)) for p in allp], 'fs1': [C(after.get(p)) for p in allp],
                       'chg': [[pidx[os.path.relpath(p, root)], C(new.encode('utf-8'))] for p, new in sorted(newcode.items())],
                       'ren': [[pidx[a], pidx[b]] for a, b in fren]})
        info['apply'] = aout
        # what the trace spec will compute, for the replay file of a rejected Apply event
        exp = dict(before)
        for pth, new in sorted(newcode.items()):
            exp[os.path.relpath(pth, root)] = new.encode('utf-8')
        for a, b in fren:
            exp[b] = exp.get(a)
            exp[a] = None
        info['apply_diff'] = sorted(q for q in allp if exp.get(q) != after.get(q))
        info['apply_fren'] = fren
    shutil.rmtree(root, True)
    return {'info': info, 'events': events}


CFG = '''SPECIFICATION Spec
CONSTANTS
  Paths = {p1, p2, p3}
  NoPath = NoPath
  Contents = {c1, c2}
  Absent = Absent
INVARIANT NothingBeforeApply
INVARIANT ApplyAnnounced
INVARIANT WritesHitExistingFiles
INVARIANT OnlyAnnouncedTouched
PROPERTY NoWriteBeforeApply
CHECK_DEADLOCK FALSE
'''
TCFG = '''INIT TInit
NEXT TNext
CONSTANTS
  Paths = {}
  NoPath = 0
  Contents = {}
  Absent = 0
CONSTRAINT Verdict
CHECK_DEADLOCK FALSE
'''


def run(ctx):
    quick = ctx.quick
    p = os.path.join(ctx.tmp, 'mc.cfg')
    with open(p, 'w') as f:
        f.write(CFG)
    res = run_tlc('RefLife', p, workers=16, timeout=1200, coverage=True)
    ctx.add_tlc(res, 'lifecycle exhaustive (3 paths, 2 contents)')
    if res.violated:
        ctx.violation('design:%s' % res.violated, 'lifecycle model violates %s' % res.violated, {'trace': res.trace})
        return ctx.finish()
    never = [a for a in ('Request', 'Inspect', 'ApplyBegin', 'WriteFile', 'ApplyFailNoPath', 'RenameStep', 'ApplyEnd')
             if res.coverage.get(a, 0) == 0]
    if never or res.distinct < 1000:
        raise MachineryError('vacuity: %s never taken, %d states' % (never, res.distinct))
    ctx.coverage['exhaustive'] = True

    # ---- real requests
    n = 420 if quick else 5000
    work = ctx.sub('proj')
    jobs = []
    rng = ctx.rng
    targets = ['main_prog.py'] * 5 + ['helper_mod.py', 'pkg_one/sub_mod.py', 'pkg_onesie/__init__.py']
    for i in range(n):
        ending = rng.choice(['\n', '\n', '\r\n'])
        jobs.append((work, i, ending, rng.random() < 0.7, rng.choice(['rename', 'rename', 'inline', 'extract_variable',
                                                                      'extract_function']),
                     rng.choice(targets), ctx.seed * 100000 + i, rng.choice(['inspect', 'apply', 'apply'])))
    ctx.log('executing %d refactoring requests' % n)
    results = jutil.pmap(do_request, jobs, chunksize=4)
    jutil.check_worker_errors(results)
    traces = [r['events'] for r in results]
    stats = {}
    for r in results:
        k = (r['info']['kind'], r['info']['outcome'].split(':')[0], r['info'].get('apply'))
        stats[str(k)] = stats.get(str(k), 0) + 1
        if r['info']['outcome'].startswith('internal'):
            ctx.violation('request-crash:%s:%s' % (r['info']['kind'], r['info']['outcome'][9:]),
                          'a refactoring request failed with an internal exception instead of RefactoringError',
                          r['info'])
        if 'inspect_crash' in r['info']:
            ctx.violation('inspect-crash:%s' % r['info']['inspect_crash'], 'inspecting a refactoring result raised', r['info'])
    ctx.coverage['request_outcomes'] = stats
    ok = sum(1 for r in results if r['info']['outcome'] == 'ok')
    if ok < n // 20:
        raise MachineryError('vacuity: only %d of %d requests produced a refactoring' % (ok, n))
    tp = os.path.join(ctx.tmp, 'trace.cfg')
    with open(tp, 'w') as f:
        f.write(TCFG)
    ctx.log('validating %d traces' % len(traces))
    vs = validate_traces('Trace_RefLife', tp, traces, ctx, 'Trace_RefLife', chunk=1500)
    for v, r in zip(vs, results):
        if len(r['events']) > 1:
            ctx.sample({k: r['info'][k] for k in ('kind', 'file', 'line', 'col', 'until', 'ending', 'final_newline',
                                                   'mode', 'changed', 'renames') if k in r['info']})
        if not v['accepted']:
            why = v['why'] or ['?']
            if r['info']['outcome'].startswith('internal') or 'inspect_crash' in r['info']:
                continue
            ev = r['events'][v['at'] - 1]['ev'] if v['at'] else '?'
            ctx.violation('%s:%s:%s' % (r['info']['kind'], ev, ','.join(why)),
                          'refactoring result violates %s' % why, dict(r['info'], events=r['events'] if why == ['?'] else None))
    # named deviation (DiffPadsFinalNewline), reported under its own key
    for v, r in zip(vs, results):
        flat = str(v['notes'])
        if 'DiffPhantomLastLine' in flat:
            ctx.violation('diff-phantom-last-line', 'get_diff(): a hunk that reaches the end of a newline-terminated '
                          'file counts one line more in its header than it contains (git apply: corrupt patch)', r['info'])
        if 'DiffPadsFinalNewline' in flat:
            ctx.violation('diff-final-newline-padding', 'get_diff() pads a missing final newline: applying the patch '
                          'does not reproduce get_new_code() byte for byte', r['info'])
    # binding self-test
    import copy
    bad = None
    for r in results:
        for e in r['events']:
            if e['ev'] == 'Inspect' and e['files'] and e['files'][0]['hunks']:
                b = copy.deepcopy(r['events'])
                for e2 in b:
                    if e2['ev'] == 'Inspect':
                        e2['files'][0]['new'] = e2['files'][0]['new'][:-1] + [9999]
                        e2['files'][0]['newpad'] = e2['files'][0]['newpad'][:-1] + [9999]
                bad = b
                break
        if bad:
            break
    if not bad:
        raise MachineryError('binding self-test: no inspectable refactoring produced')
    n0 = ctx.coverage['traces_validated_against_impl']
    bv = validate_traces('Trace_RefLife', tp, [bad], ctx, 'binding self-test')
    ctx.coverage['traces_validated_against_impl'] = n0
    if bv[0]['accepted']:
        raise MachineryError('binding self-test: corrupted new code accepted')
    ctx.coverage['binding_selftest'] = 'corrupted new code rejected: %s' % bv[0]['why']
    ctx.assumptions += ['file contents and lines are compared by byte identity', 'lone-CR files not generated']
    return None
