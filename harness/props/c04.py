"""C04 -- completions extend what is typed, are ordered, unique and complete.

spec/Complete.tla (Design |= Reference, exhaustive), replay of TLC-emitted cases into
Script.complete (spec->code), Trace_Complete.tla over recorded complete() calls on
rendered cases and on the corpus (code->spec), attribute completeness against dir().
"""
import io
import os
import re
import tokenize

from harness import jutil
from harness.core import MachineryError
from harness.tlc import run_tlc, cases, validate_traces

META = dict(
        spec='Complete.tla, Trace_Complete.tla',
        text='TLC checks exhaustively (all candidate lists of <=2/3 names from a 28-candidate pool x all '
             'fragments of <=3 chars x fuzzy) that the transcription of jedi\'s match/filter/sort/suffix code '
             'satisfies the property\'s clauses; a TLC-emitted slice of cases is replayed into Script.complete '
             'in two renderings and must equal the model; every recorded complete() call (rendered cases and '
             'corpus positions) is judged by TLC against the Reference clauses (Trace_Complete); attribute '
             'completeness is judged against dir() of the executed program.',
        note='Trusts TLC, the harness fragment regex, and CPython dir() as oracle; corpus calls that raise are '
             'counted as blocked (C01 decides totality); class receivers blocked by absent typeshed.',
        technique='TLA+ spec (Design|=Reference) model-checked with TLC; spec->code replay of emitted cases; '
                  'code->spec trace validation of recorded complete() calls',
        design_ref='5/C04')

CFG = '''INIT Init
NEXT Next
CONSTANTS
  MaxCands = %d
  MaxFrag = %d
  EmitMod = %d
  EmitRem = %d
INVARIANT DesignMeetsReference
INVARIANT NothingLost
INVARIANT FuzzyIsSubseq
%s
CHECK_DEADLOCK FALSE
'''


def write_cfg(ctx, name, maxc, maxf, mod, rem, emit):
    p = os.path.join(ctx.tmp, name)
    with open(p, 'w') as f:
        f.write(CFG % (maxc, maxf, mod, rem, 'CONSTRAINT Emit' if emit else ''))
    return p


# ---------------------------------------------------------------- rendering
def cname(c):
    return jutil.dec(c['name']) + ('=' if c['sym'] else '')


def render_globals(case):
    """sym=0 candidates -> module globals, sym=61 -> parameters of a called function."""
    lines = []
    params = []
    for c in case['cands']:
        n = jutil.dec(c['name'])
        if c['sym']:
            if n not in params:
                params.append(n)
        else:
            lines.append('%s = 0' % n)
    frag = jutil.dec(case['frag'])
    if params:
        lines.append('def zz(%s): pass' % ', '.join(params))
        lines.append('zz(' + frag)
    else:
        lines.append(frag)
    return '\n'.join(lines)


def render_instance(case):
    """candidates spread over __init__ self-attributes, class body, base class."""
    base, cls, init = [], [], []
    for i, c in enumerate(case['cands']):
        [init, cls, base][i % 3].append(jutil.dec(c['name']))
    src = ['class Bz:']
    src += ['    %s = 0' % n for n in base] or ['    pass']
    src += ['class Kz(Bz):']
    src += ['    %s = 0' % n for n in cls]
    src += ['    def __init__(self):']
    src += ['        self.%s = 0' % n for n in init] or ['        pass']
    src += ['kz = Kz()', 'kz.' + jutil.dec(case['frag'])]
    return '\n'.join(src)


def item(c):
    comp = c.complete
    return {'name': jutil.enc(c.name), 'nws': jutil.enc(c.name_with_symbols),
            'plen': c.get_completion_prefix_length(),
            'complete': [] if comp is None else [jutil.enc(comp)]}


def canon(items, frag):
    """Order modulo ties of the sort key (equal lower-cased name and same-case flag)."""
    runs = []
    for n, comp in items:
        k = (n.lower(), n.startswith(frag))
        if runs and runs[-1][0] == k:
            runs[-1][1].append((n, comp))
        else:
            runs.append((k, [(n, comp)]))
    return [sorted(r[1], key=repr) for r in runs]


def replay_case(case):
    out = {'case': case, 'renders': []}
    frag = jutil.dec(case['frag'])
    pool = set(cname(c) for c in case['cands'])
    renders = [('globals', render_globals(case))]
    def mangled(c):
        n = jutil.dec(c['name'])
        return n.startswith('__') and not n.endswith('__')
    # name-mangled attributes (self.__x) are not attributes under that name from outside
    if all(c['sym'] == 0 and not mangled(c) for c in case['cands']):
        renders.append(('instance', render_instance(case)))
    for kind, src in renders:
        lines = src.split('\n')
        r = jutil.safe(lambda: jutil.script(src).complete(len(lines), len(lines[-1]), fuzzy=case['fuzzy']))
        if r[0] == 'exc':
            out['renders'].append({'kind': kind, 'src': src, 'exc': r[2]})
            continue
        full = [item(c) for c in r[1]]
        user = [(c.name, c.complete) for c in r[1] if c.name in pool]
        out['renders'].append({'kind': kind, 'src': src, 'full': full, 'user': user})
    return out


# ---------------------------------------------------------------- corpus driver
def positions_in(src, rng, n):
    """Cursor positions relative to tokens: inside/at end of identifiers, after dots,
    after '(' and ',', on import lines.  Never inside strings or comments."""
    pos = []
    try:
        toks = list(tokenize.generate_tokens(io.StringIO(src).readline))
    except (tokenize.TokenError, IndentationError, SyntaxError):
        return []
    for t in toks:
        if t.type == tokenize.NAME:
            (l, c0), (_, c1) = t.start, t.end
            pos.append((l, c1, 'name_end'))
            if c1 - c0 > 1:
                pos.append((l, rng.randrange(c0 + 1, c1), 'name_mid'))
        elif t.type == tokenize.OP and t.string in ('.', '(', ','):
            pos.append((t.end[0], t.end[1], 'after_' + {'.': 'dot', '(': 'paren', ',': 'comma'}[t.string]))
    rng.shuffle(pos)
    return pos[:n]


def record_file(arg):
    path, npos, seed = arg
    import random
    rng = random.Random(seed)
    with open(path, encoding='utf-8') as f:
        src = f.read()
    lines = src.split('\n')
    events, blocked, skipped = [], [], 0
    import jedi
    for (l, c, kind) in positions_in(src, rng, npos):
        fuzzy = rng.random() < 0.4
        frag = re.search(r'(?!\d)\w+$|$', lines[l - 1][:c]).group(0)
        s = jedi.Script(src, path=path, project=jutil.project(os.path.dirname(path)), environment=jutil.env())
        r = jutil.safe(lambda: s.complete(l, c, fuzzy=fuzzy))
        if r[0] == 'exc':
            blocked.append(r[2])
            continue
        its = [item(x) for x in r[1]]
        if not frag.isascii() or any(not x.name.isascii() for x in r[1]):
            skipped += 1
            continue
        events.append({'frag': jutil.enc(frag), 'fuzzy': fuzzy, 'out': its,
                       'pos': [l, c], 'kind': kind})
    return {'path': path, 'events': events, 'blocked': blocked, 'skipped': skipped}


# ---------------------------------------------------------------- attribute completeness
def render_attrs(where):
    """where: name -> place.  Returns (source, receiver expression)."""
    by = {p: [n for n, q in where.items() if q == p] for p in
          ('init', 'method', 'cls', 'clsfunc', 'base', 'baseinit')}
    src = ['class Bz:']
    src += ['    %s = 0' % n for n in by['base']]
    src += ['    def __init__(self):']
    src += ['        self.%s = 0' % n for n in by['baseinit']] or ['        pass']
    src += ['class Kz(Bz):']
    src += ['    %s = 0' % n for n in by['cls']]
    src += ['    def %s(self): pass' % n for n in by['clsfunc']]
    src += ['    def __init__(self):', '        super().__init__()']
    src += ['        self.%s = 0' % n for n in by['init']]
    src += ['    def other_zz(self):']
    src += ['        self.%s = 0' % n for n in by['method']] or ['        pass']
    src += ['kz = Kz()', 'kz.other_zz()']
    return '\n'.join(src)


def attrs_case(arg):
    where = arg
    src = render_attrs(where)
    g = {}
    exec(compile(src, '<c04>', 'exec'), g)
    have = set(n for n in dir(g['kz']) if n in where)
    full = src + '\nkz.'
    lines = full.split('\n')
    r = jutil.safe(lambda: jutil.script(full).complete(len(lines), len(lines[-1])))
    if r[0] == 'exc':
        return {'where': where, 'exc': r[2], 'src': full}
    offered = set(c.name for c in r[1])
    return {'where': where, 'src': full, 'have': sorted(have), 'missing': sorted(have - offered)}


def render_hierarchy(h):
    """h = {'classes': [[name, [bases], [attrs], [methods], [selfattrs]]...] in definition order, 'leaf': name}"""
    src = []
    for name, bases, attrs, meths, selfs in h['classes']:
        src.append('class %s%s:' % (name, '(%s)' % ', '.join(bases) if bases else ''))
        body = ['    %s = 0' % a for a in attrs] + ['    def %s(self): pass' % m for m in meths]
        if selfs:
            body += ['    def __init__(self):'] + (['        super().__init__()'] if bases else [])
            # how the instance attribute comes into being varies with the class (all are executed by the constructor)
            style = sum(map(ord, name)) % 5
            for a in selfs:
                if style == 0:
                    body += ['        self.%s = 0' % a]
                elif style == 1:        # in a helper method called by the constructor
                    body += ['        self.setup_%s()' % a]
                elif style == 2:        # through a closure over self, nested in the method
                    body += ['        def cb_zz():', '            self.%s = 0' % a, '        cb_zz()']
                elif style == 3:        # as a loop / tuple target
                    body += ['        for self.%s in (0,):' % a, '            pass']
                else:
                    body += ['        self.%s, other_zz = 0, 0' % a]
            if style == 1:
                for a in selfs:
                    body += ['    def setup_%s(self):' % a, '        self.%s = 0' % a]
        src += body or ['    pass']
    src.append('obj_zz = %s()' % h['leaf'])
    return '\n'.join(src)


def make_hierarchy(rng):
    """A random linearizable class DAG (<= 6 classes, multiple inheritance on several levels): every class defines its
    own attributes; the leaf instance must offer all of them."""
    n = rng.randrange(3, 7)
    names = ['Hz%d' % i for i in range(n)]
    classes = []
    for i, nm in enumerate(names):
        k = rng.choice([0, 1, 1, 2, 2, 3]) if i else 0
        bases = sorted(rng.sample(names[:i], min(k, i)), key=names.index, reverse=True)
        classes.append([nm, bases, ['ca_%s' % nm.lower()], ['me_%s' % nm.lower()],
                        ['sa_%s' % nm.lower()] if rng.random() < 0.5 else []])
    return {'classes': classes, 'leaf': names[-1]}


def hierarchy_case(h):
    src = render_hierarchy(h)
    g = {}
    try:
        exec(compile(src, '<c04h>', 'exec'), g)
    except TypeError:
        return {'skip': 'MRO not linearizable'}
    have = set(x for x in dir(g['obj_zz']) if x[:3] in ('ca_', 'me_', 'sa_'))
    full = src + '\nobj_zz.'
    lines = full.split('\n')
    r = jutil.safe(lambda: jutil.script(full).complete(len(lines), len(lines[-1])))
    if r[0] == 'exc':
        return {'exc': r[2], 'src': full}
    offered = set(c.name for c in r[1])
    return {'src': full, 'have': sorted(have), 'missing': sorted(have - offered)}


# ---------------------------------------------------------------- main
def run(ctx):
    quick = ctx.quick
    # 1. Design |= Reference, exhaustive in the bounded space
    maxc, maxf = (2, 3) if quick else (3, 3)
    cfg = write_cfg(ctx, 'mc.cfg', maxc, maxf, 1, 0, False)
    res = run_tlc('Complete', cfg, workers=16, timeout=3000)
    ctx.add_tlc(res, 'Design|=Reference exhaustive MaxCands=%d MaxFrag=%d' % (maxc, maxf))
    if res.violated:
        raise MachineryError('Complete.tla: design violates reference (%s); the model must reproduce the '
                             'repaired code or the finding be recorded:\n%s' % (res.violated, res.trace[-1:]))
    if res.distinct < 10000:
        raise MachineryError('vacuity: only %d states' % res.distinct)
    ctx.coverage['exhaustive'] = True

    # 2. emitted slice -> replay (spec -> code)
    mod = 211 if quick else 23
    cfg = write_cfg(ctx, 'emit.cfg', 2 if quick else 3, 3 if quick else 2, mod, ctx.seed % mod, True)
    res = run_tlc('Complete', cfg, workers=1, timeout=3000)
    ctx.add_tlc(res, 'case emission slice %d mod %d' % (ctx.seed % mod, mod))
    cs = cases(res)
    if len(cs) < 200:
        raise MachineryError('too few cases emitted: %d' % len(cs))
    ctx.log('replaying %d TLC cases' % len(cs))
    results = jutil.pmap(replay_case, cs)
    jutil.check_worker_errors(results)
    traces, trace_src = [], []
    for r in results:
        case = r['case']
        frag = jutil.dec(case['frag'])
        design = [(jutil.dec(o['name']), jutil.dec(o['complete'][0]) if o['complete'] else None)
                  for o in case['out']]
        for rd in r['renders']:
            ctx.count('replayed')
            if 'exc' in rd:
                ctx.violation('replay-crash:' + rd['exc'], 'complete() raised on a rendered case',
                              {'src': rd['src'], 'case': case})
                continue
            exp = design
            if rd['kind'] == 'instance':
                pass
            if canon(rd['user'], frag) != canon(exp, frag):
                # property relation: every matching candidate offered; judged here,
                # the remaining clauses are judged by Trace_Complete below.
                missing = set(design) - set(rd['user'])
                # completeness is demanded by the property for attribute receivers only
                if missing and rd['kind'] == 'instance':
                    ctx.violation('missing:%s' % rd['kind'],
                                  'candidates that extend the fragment are not offered: %s' % sorted(map(str, missing)),
                                  {'src': rd['src'], 'expected': design, 'got': rd['user']})
                else:
                    ctx.drift({'src': rd['src'], 'design': design, 'code': rd['user']})
            traces.append([{'frag': case['frag'], 'fuzzy': case['fuzzy'], 'out': rd['full']}])
            trace_src.append(rd['src'])
            ctx.sample({'kind': rd['kind'], 'source': rd['src'], 'fuzzy': case['fuzzy'],
                        'design_out': design, 'code_out': rd['user']})

    # 3. corpus driver (code -> spec)
    ctx.log('corpus driver')
    files = jutil.corpus_files(limit=12 if quick else 80, rng=ctx.rng)
    recs = jutil.pmap(record_file, [(f, 12 if quick else 40, ctx.seed + i) for i, f in enumerate(files)],
                      chunksize=1)
    jutil.check_worker_errors(recs)
    blocked = {}
    for r in recs:
        for b in r['blocked']:
            blocked[b] = blocked.get(b, 0) + 1
        ctx.count('corpus_skipped_nonascii', r['skipped'])
        if r['events']:
            traces.append([{k: e[k] for k in ('frag', 'fuzzy', 'out')} for e in r['events']])
            trace_src.append({'path': r['path'], 'positions': [(e['pos'], e['kind'], e['fuzzy']) for e in r['events']]})
            ctx.count('corpus_calls', len(r['events']))
    ctx.coverage['corpus_blocked_by_internal_errors'] = blocked
    ctx.notes.append('complete() calls on the corpus that raise are counted as blocked here; '
                     'totality is property C01')

    ctx.log('validating %d traces, %d events, max out %d' % (len(traces), sum(map(len, traces)), max(len(e['out']) for t in traces for e in t)))
    verdicts = validate_traces('Trace_Complete', 'Trace_Complete.cfg', traces, ctx, 'Trace_Complete')
    for v, t, src in zip(verdicts, traces, trace_src):
        if not v['accepted']:
            ev = t[v['at'] - 1] if v['at'] else None
            ctx.violation('reference:%s' % ','.join(v['why'] or ['?']),
                          'complete() result violates reference clause(s) %s' % v['why'],
                          {'source': src, 'event': ev, 'at': v['at']})

    # binding self-test: a corrupted record must be rejected
    if traces:
        import copy
        bad = None
        for t in traces:
            if t[0]['out'] and not t[0]['fuzzy'] and len(t[0]['out']) > 1:
                bad = copy.deepcopy(t[:1])
                bad[0]['out'][0], bad[0]['out'][-1] = bad[0]['out'][-1], bad[0]['out'][0]
                bad2 = copy.deepcopy(t[:1])
                bad2[0]['out'][0]['plen'] += 1
                break
        if bad:
            n0 = ctx.coverage['traces_validated_against_impl']
            vs = validate_traces('Trace_Complete', 'Trace_Complete.cfg', [bad, bad2], ctx, 'binding self-test')
            ctx.coverage['traces_validated_against_impl'] = n0
            if vs[1]['accepted'] or (vs[0]['accepted'] and bad[0]['out'][0]['name'] != bad[0]['out'][-1]['name']):
                raise MachineryError('binding self-test: corrupted trace accepted %s' % vs)
            ctx.coverage['binding_selftest'] = 'corrupted records rejected: %s' % [v['why'] for v in vs]

    # 4. attribute completeness vs dir()
    ctx.log('attribute completeness')
    names = ['ab', 'Ab', '_ab', '__ab', 'ba', 'abc', 'b_']
    places = ['init', 'method', 'cls', 'clsfunc', 'base', 'baseinit']
    wheres = []
    import itertools
    for k in (1, 2, 3):
        for ns in itertools.combinations(names, k):
            for ps in itertools.product(places, repeat=k):
                wheres.append(dict(zip(ns, ps)))
    ctx.rng.shuffle(wheres)
    wheres = wheres[:300 if quick else 4000]
    ar = jutil.pmap(attrs_case, wheres)
    jutil.check_worker_errors(ar)
    for r in ar:
        ctx.count('attr_cases')
        if 'exc' in r:
            ctx.violation('attrs-crash:' + r['exc'], 'complete() raised after instance receiver', r)
        elif r['missing']:
            ctx.violation('attrs-missing:' + ','.join(sorted(set(r['where'][m] for m in r['missing']))),
                          'run-time attributes defined in the sources are not offered: %s' % r['missing'], r)
    # class hierarchies with multiple inheritance on several levels: every hierarchy of 5 classes enumerated by TLC
    # (spec/Mro.tla: the code's py__mro__ listing covers exactly the ancestors), plus random larger ones
    mcfg = os.path.join(ctx.tmp, 'mro.cfg')
    with open(mcfg, 'w') as f:
        f.write('INIT Init\nNEXT Next\nCONSTANTS\n  N = 5\n  MaxBases = 2\n  EmitMod = %d\n  EmitRem = %d\n'
                'INVARIANT Covers\nINVARIANT NoDup\nCONSTRAINT Emit\nCHECK_DEADLOCK FALSE\n' % (1, 0))
    mres = run_tlc('Mro', mcfg, workers=1, timeout=1200)
    ctx.add_tlc(mres, 'class hierarchies: py__mro__ listing covers the ancestors')
    if mres.violated:
        ctx.violation('design:%s' % mres.violated, 'Mro.tla: the listing misses an ancestor', {'trace': mres.trace[-1:]})
    hs = []
    for c in cases(mres):
        cl = []
        for i, b in enumerate(c['bases']):
            nm = 'Hz%d' % (i + 1)
            cl.append([nm, ['Hz%d' % x for x in b], ['ca_' + nm.lower()], ['me_' + nm.lower()], ['sa_' + nm.lower()] if i % 2 else []])
        hs.append({'classes': cl, 'leaf': 'Hz%d' % len(c['bases'])})
    if len(hs) < 300:
        raise MachineryError('too few hierarchies emitted: %d' % len(hs))
    hs += [make_hierarchy(ctx.rng) for _ in range(100 if quick else 1500)]
    hr = jutil.pmap(hierarchy_case, hs)
    jutil.check_worker_errors(hr)
    for r in hr:
        if 'skip' in r:
            continue
        ctx.count('hierarchy_cases')
        if 'exc' in r:
            ctx.violation('attrs-crash:' + r['exc'], 'complete() raised after instance receiver', r)
        elif r['missing']:
            ctx.violation('attrs-missing:inherited', 'run-time attributes inherited through the class hierarchy are not '
                          'offered: %s' % r['missing'], r)
    ctx.assumptions += ['fragment = longest identifier suffix of the text left of the cursor (regex of the harness)',
                        'class receivers (K.) are blocked in this tree by the absent typeshed (C01 known finding)']
    return None
