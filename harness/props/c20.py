"""C20 -- Project settings round-trip and shape sys.path as documented.

spec/ProjectPath.tla: Reference (the property's sentences) and Design (transcription of
jedi/api/project.py Project.__init__/save/load/_get_base_sys_path/_get_sys_path/
_remove_duplicates_from_path/get_default_project and of Script's use of it).

legs: (1) TLC exhaustive Design |= Reference (strict invariants, the Design models the repaired
code), and what-if runs with each of the two repaired deviations switched back on, which must
yield counterexamples; those are replayed on the real code and must show the repaired behaviour;
(2) TLC-emitted cases (constructor arguments x script locations, discovery chains) rendered
as directory trees + Project/Script objects, replayed, compared with the Design's prediction;
(3) random, larger scenarios and corpus files recorded and judged by Trace_ProjectPath.tla;
(4) binding self-test; CPython (str, pathlib, importlib PathFinder) as oracle of the Reference.
"""
import copy
import json
import os
import random
import shutil

from harness import jutil
from harness.core import MachineryError, REPO
from harness.tlc import run_tlc, cases, validate_traces

META = dict(
        spec='ProjectPath.tla, Trace_ProjectPath.tla',
        text='TLC checks exhaustively (all Project constructor argument combinations over a 14-entry pool of '
             'str/Path/relative/trailing-slash/nested/project/ancestor spellings x 5 project-path forms x '
             'smart x explicit-or-environment x script inside at depth 0..4 with every __init__ pattern / in a '
             'sibling whose name extends the project\'s / above / path-less) that the transcription of '
             'Project.__init__/save/load/_get_sys_path satisfies the property\'s clauses (round trip, no '
             'duplicates, project first, base order kept, added after base, ancestors last and only inside '
             'the project, import precedence for every pair of planted modules); emitted cases are built on '
             'disk and replayed (attributes, save/load, three get_sys_path variants, real `import m` + infer) '
             'and must equal the model; random larger scenarios, corpus files and get_default_project chains '
             'are recorded and judged by TLC against the Reference (Trace_ProjectPath).',
        note='Trusts TLC, the projection of path strings to spellings, CPython (str/pathlib/PathFinder) as '
             'oracle. Not modelled: buildout paths (no buildout.cfg above the scripts), "..", symlinks, '
             'Windows paths, sys.path modifications inside the script; directory-level duplicates with '
             'different spellings ("/x" and "/x/") are not counted as duplicates.',
        technique='TLA+ spec (Design|=Reference) model-checked with TLC; spec->code replay of emitted cases; '
                  'code->spec trace validation of recorded Project/Script observations',
        design_ref='5/C20')

CFG = '''INIT %(init)s
NEXT %(next)s
CONSTANTS
  MaxSys = %(maxsys)d
  MaxAdded = %(maxadded)d
  MaxDepth = %(maxdepth)d
  MaxChain = %(maxchain)d
  SysIdx = {%(sysidx)s}
  AddedIdx = {%(addedidx)s}
  EmitMod = %(mod)d
  EmitRem = %(rem)d
  FixEnvPath = %(fixenv)s
  FixRelProject = %(fixrel)s
%(props)s
CHECK_DEADLOCK FALSE
'''
# the Design models the repaired code (FixEnvPath = FixRelProject = TRUE): the strict invariants hold everywhere
INVS = ['RoundTripStrict', 'SysPathStrict', 'ImportStrict', 'InvVariants']


def write_cfg(ctx, name, maxsys=0, maxadded=0, maxdepth=0, maxchain=0, sysidx=(), addedidx=(), mod=1, rem=0,
              invs=(), constraint=None, disc=False, fixenv=True, fixrel=True):
    p = os.path.join(ctx.tmp, name)
    props = ['INVARIANT %s' % i for i in invs]
    if constraint:
        props.append('CONSTRAINT %s' % constraint)
    with open(p, 'w') as f:
        f.write(CFG % dict(init='DiscInit' if disc else 'Init', next='DiscNext' if disc else 'Next',
                           maxsys=maxsys, maxadded=maxadded, maxdepth=maxdepth, maxchain=maxchain,
                           sysidx=','.join(map(str, sysidx)), addedidx=','.join(map(str, addedidx)),
                           mod=mod, rem=rem, props='\n'.join(props),
                           fixenv='TRUE' if fixenv else 'FALSE', fixrel='TRUE' if fixrel else 'FALSE'))
    return p


# ---------------------------------------------------------------- rendering / projection
# component token -> directory name, per naming scheme ("r" is the per-case root directory)
SCHEMES = [
    {'p': 'proj', 'p2': 'proj2', 'e1': 'lib', 'e2': 'lib2', 'e3': 'li', 'sub': 'sub', 'a1': 'extra',
     'a2': 'extra.d', 'd1': 'pkg', 'd2': 'inner', 'd3': 'deep', 'd4': 'deeper', 'd5': 'd5', 'd6': 'd6',
     'venv': 'venv', 'bin': 'bin', 'python': 'python', 's.py': 's.py'},
    {'p': 'prøjekt ü', 'p2': 'prøjekt ü2', 'e1': 'библ', 'e2': 'библ2',
     'e3': 'би', 'sub': '子', 'a1': 'añadido x', 'a2': "it's", 'd1': 'pkg_é', 'd2': 'ß2',
     'd3': '三', 'd4': 'd 4', 'd5': '\U0001d4b9', 'd6': 'é', 'venv': 'v env', 'bin': 'bin',
     'python': 'pythön', 's.py': 'sköript.py'},
]


def sp_render(sp, root, nm):
    comps = sp['comps']
    if sp['abs']:
        if not comps or comps[0] != 'r':
            raise MachineryError('cannot render absolute spelling %r' % (sp,))
        s = root + ''.join('/' + nm[c] for c in comps[1:])
    else:
        s = '/'.join(nm[c] for c in comps)
    return s + ('/' if sp['ts'] else '')


def arg_render(a, root, nm):
    from pathlib import Path
    s = sp_render(a['sp'], root, nm)
    return Path(s) if a['isPath'] else s


class Projector:
    """path string -> spelling [abs, comps, ts]; names become ASCII tokens (TLC side)."""

    def __init__(self, root, nm):
        self.root = root
        self.inv = {v: k for k, v in nm.items()} if nm else {}
        self.toks = {}

    def tok(self, name, under_root):
        if under_root and name in self.inv:
            return self.inv[name]
        if name not in self.toks:
            self.toks[name] = 'n%d' % len(self.toks)
        return self.toks[name]

    def sp(self, s):
        if s == '':
            return {'abs': False, 'comps': [], 'ts': False}
        ts = len(s) > 1 and s.endswith('/')
        body = s[:-1] if ts else s
        parts = body.split('/')
        odd = any(c in ('', '.', '..') for c in (parts[1:] if body.startswith('/') else parts)) and body != '/'
        if odd:   # not a normalised spelling: opaque single component
            return {'abs': body.startswith('/'), 'comps': ['?' + self.tok(s, False)], 'ts': False}
        root = self.root
        if root and (body == root or body.startswith(root + '/')):
            rest = body[len(root) + 1:]
            return {'abs': True, 'comps': ['r'] + [self.tok(n, True) for n in rest.split('/') if rest], 'ts': ts}
        if body.startswith('/'):
            rest = body[1:]
            return {'abs': True, 'comps': ['/'] + [self.tok(n, False) for n in rest.split('/') if rest], 'ts': ts}
        return {'abs': False, 'comps': [self.tok(n, True) for n in parts], 'ts': ts}

    def comps(self, s):
        return self.sp(s)['comps']

    def attrs(self, proj):
        from pathlib import Path
        ep = proj._environment_path
        return {'path': dict(self.sp(str(proj._path)), ts=False),
                'envp': [] if ep is None else [{'sp': self.sp(str(ep)), 'isPath': isinstance(ep, Path)}],
                'sysp': [] if proj._sys_path is None else [[self.sp(str(x)) for x in proj._sys_path]],
                'added': [self.sp(str(x)) for x in proj.added_sys_path],
                'smart': bool(proj._smart_sys_path), 'unsafe': bool(proj._load_unsafe_extensions)}


# ---------------------------------------------------------------- worker state
_W = {}
MARKERS = ('setup.py', '.git', '.hg', 'requirements.txt', 'MANIFEST.in', 'pyproject.toml', 'manage.py',
           '__init__.py', 'buildout.cfg', os.path.join('.jedi', 'project.json'))


def worker_env(neutral):
    """One controllable environment per process; its helper is started with an empty cwd."""
    if _W.get('pid') != os.getpid():
        from jedi.api.environment import SameEnvironment

        class CtlEnv(SameEnvironment):
            ctl = None

            def get_sys_path(self):
                return list(self.ctl) if self.ctl is not None else SameEnvironment.get_sys_path(self)
        os.chdir(neutral)
        e = CtlEnv()
        e.real = list(e.get_sys_path())    # spawns the helper here, cwd = neutral
        _W.update(pid=os.getpid(), env=e)
    return _W['env']


def dirs_of_case(case):
    ds = []

    def add(sp):
        if sp['abs'] and sp['comps'][:1] == ['r']:
            ds.append(sp['comps'])
    a = case['args']
    add(a['path']['sp'])
    for x in (a['sysp'][0] if a['sysp'] else []) + a['added']:
        add(x['sp'])
    for x in case.get('env') or []:
        if isinstance(x, dict):
            add(x)
    # relative spellings name directories below the root as well
    for x in [a['path']] + (a['sysp'][0] if a['sysp'] else []) + a['added']:
        if not x['sp']['abs'] and x['sp']['comps']:
            ds.append(['r'] + x['sp']['comps'])
    if case['script']:
        ds.append(case['script'][0][:-1])
    for d in case['initDirs']:
        ds.append(d)
    return ds


def run_case(item):
    """Build the case on disk, drive the real jedi, return the projected observation."""
    import importlib
    import importlib.machinery
    from pathlib import Path
    import jedi
    case = item['case']
    nm = SCHEMES[item['scheme']]
    rng = random.Random(item['seed'])
    root = os.path.join(item['base'], '%06d' % item['idx'])
    out = {'idx': item['idx'], 'scheme': item['scheme'], 'root': root}
    env = worker_env(item['neutral'])
    os.makedirs(root)
    try:
        for comps in dirs_of_case(case):
            os.makedirs(sp_render({'abs': True, 'comps': comps, 'ts': False}, root, nm), exist_ok=True)
        for comps in case['initDirs']:
            with open(os.path.join(sp_render({'abs': True, 'comps': comps, 'ts': False}, root, nm), '__init__.py'), 'w'):
                pass
        os.chdir(root)                       # "r" is the cwd of the client
        pj = Projector(root, nm)
        a = case['args']
        kw = {}
        if a['envp']:
            kw['environment_path'] = arg_render(a['envp'][0], root, nm)
        if a['sysp']:
            xs = [arg_render(x, root, nm) for x in a['sysp'][0]]
            kw['sys_path'] = xs if rng.random() < 0.7 else tuple(xs)
        if a['added'] or rng.random() < 0.5:
            xs = [arg_render(x, root, nm) for x in a['added']]
            kw['added_sys_path'] = xs if rng.random() < 0.5 else tuple(xs)
        if not a['smart'] or rng.random() < 0.5:
            kw['smart_sys_path'] = a['smart']
        if a['unsafe'] or rng.random() < 0.5:
            kw['load_unsafe_extensions'] = a['unsafe']
        ppath = arg_render(a['path'], root, nm)
        if case['explicit']:
            env.ctl = None
            envlist = []
        elif case.get('env') == 'real':
            env.ctl = None
            envlist = [pj.sp(s) for s in env.real]
        else:
            env.ctl = [sp_render(s, root, nm) for s in case['env']]
            envlist = case['env']
        concrete = {'path': repr(ppath), 'kwargs': repr(kw), 'env': env.ctl}
        out['concrete'] = concrete

        # CPython oracle for the Python layer of the spec (str, Path.absolute, parents)
        orc = []
        if 'inGiven' in case:
            given = [str(x) for x in kw.get('sys_path', [])] if case['explicit'] else list(env.ctl or [])
            if [pj.sp(s) for s in given] != case['inGiven']:
                orc.append(('PyStr/given', given, case['inGiven']))
            if [pj.sp(str(x)) for x in kw.get('added_sys_path', [])] != case['inAdded']:
                orc.append(('PyStr/added', kw.get('added_sys_path'), case['inAdded']))
            if pj.comps(str(Path(str(ppath)).absolute())) != case['inProj'] or \
                    pj.comps(os.path.abspath(str(ppath))) != case['inProj']:
                orc.append(('PyAbsolute/proj', str(ppath), case['inProj']))
        out['oracle_py'] = orc

        proj = jedi.Project(ppath, **kw)
        p_attrs = pj.attrs(proj)
        # -- round trip
        if item.get('env_set') and rng.random() < 0.5:
            proj._environment = env          # as after get_environment()
        rt = {'save': 'ok', 'load': '-', 'q': []}
        try:
            proj.save()
        except Exception as e:   # noqa
            rt['save'] = type(e).__name__
        if rt['save'] == 'ok':
            lp = os.path.abspath(str(ppath))
            try:
                q = jedi.Project.load(lp if rng.random() < 0.5 else Path(lp))
                rt['load'] = 'ok'
                rt['q'] = pj.attrs(q)
            except Exception as e:   # noqa
                rt['load'] = type(e).__name__
        else:
            # a failed save leaves a truncated file behind; remove it so that it cannot disturb the rest
            shutil.rmtree(os.path.join(os.path.abspath(str(ppath)), '.jedi'), True)
        proj._environment = None

        # -- the composed path
        spath = None
        if case['script']:
            sabs = sp_render({'abs': True, 'comps': case['script'][0], 'ts': False}, root, nm)
            with open(sabs, 'w'):
                pass
            spath = sabs
            k = rng.randrange(4)
            if k == 1:
                spath = Path(sabs)
            elif k == 2:
                spath = os.path.relpath(sabs, root)
            elif k == 3:
                spath = Path(os.path.relpath(sabs, root))
            concrete['script'] = repr(spath)
            anc = [str(d) for d in Path(sabs).parents if Path(os.path.abspath(str(ppath))) in d.parents][::-1]
            if 'anc' in case and [pj.comps(d) for d in anc] != case['anc']:
                orc.append(('parents/anc', anc, case['anc']))

        def script(code):
            return jedi.Script(code, path=spath, project=proj, environment=env)
        s = script('')
        st = s._inference_state
        R0 = list(st.get_sys_path())
        R1 = list(st.get_sys_path(add_init_paths=True))
        R2 = list(st.get_sys_path(add_parent_paths=False))
        bad = [x for x in R0 + R1 + R2 if not isinstance(x, str)]
        out['nonstr'] = [repr(x) for x in bad]
        R0, R1, R2 = ([str(x) for x in r] for r in (R0, R1, R2))
        concrete['R0'], concrete['R1'] = R0, R1
        ev = {'t': 'case', 'args': a, 'explicit': case['explicit'], 'env': envlist,
              'script': case['script'], 'initDirs': case['initDirs'], 'p': p_attrs,
              'rt': [rt] if item.get('with_rt', True) else [],
              'R0': [pj.sp(x) for x in R0], 'R1': [pj.sp(x) for x in R1], 'R2': [pj.sp(x) for x in R2],
              'wins': []}

        # -- import precedence: plant same-named modules, one name per experiment, all before any query
        cand = case.get('cand')
        if cand is None:
            cand = []
            for x in ev['R1']:
                if x['abs'] and x['comps'][:1] == ['r'] and x['comps'] not in cand:
                    cand.append(x['comps'])
            extra = [case['script'][0][:k] for k in range(2, len(case['script'][0]))] if case['script'] else []
            for c in extra + [pj.comps(os.path.abspath(str(ppath)))]:
                if c not in cand and c != ['r']:
                    cand.append(c)
        cand = [c for c in cand if c[:1] == ['r'] and len(c) > 1]
        exps = []
        n = len(cand)
        allh = [(i, j) for i in range(n) for j in range(i, n)]
        rng.shuffle(allh)
        for (i, j) in allh[:item.get('pairs', 3)]:
            exps.append(([cand[i]] if i == j else [cand[i], cand[j]], (i, j)))
        for hs in item.get('hsets', []):
            exps.append((hs, None))
        if item.get('triples') and n >= 3:
            exps.append((rng.sample(cand, 3), None))
        names = []
        for k, (hs, _) in enumerate(exps):
            name = 'zz_c20_m%d' % k
            names.append(name)
            for comps in hs:
                d = sp_render({'abs': True, 'comps': comps, 'ts': False}, root, nm)
                os.makedirs(d, exist_ok=True)
                with open(os.path.join(d, name + '.py'), 'w') as f:
                    f.write('where = %r\n' % '/'.join(comps))
        if exps:
            s2 = script(''.join('import %s\n' % nme for nme in names))
            importlib.invalidate_caches()
            oracle = []
            for k, (hs, ij) in enumerate(exps):
                defs = s2.infer(k + 1, 8)
                ws = []
                for d in defs:
                    if d.module_path is not None:
                        w = pj.comps(str(Path(d.module_path).parent))
                        if w not in ws:
                            ws.append(w)
                w = ws[:1]
                ev['wins'].append({'h': hs, 'w': w, 'n': len(ws), 'ij': list(ij) if ij else []})
                # CPython: PathFinder over the very same list, with the helper's (empty) cwd
                os.chdir(item['neutral'])
                try:
                    spec = importlib.machinery.PathFinder.find_spec(names[k], R1)
                finally:
                    os.chdir(root)
                oracle.append([] if spec is None or not spec.origin else [pj.comps(os.path.dirname(spec.origin))])
            out['oracle_import'] = oracle
        # -- after use: the settings are still the constructor's, also through a second save/load
        ev['p2'] = [pj.attrs(proj)]
        rt2 = {'save': 'ok', 'load': '-', 'q': []}
        if item.get('with_rt', True) and rt['save'] == 'ok' and rt['load'] == 'ok':
            try:
                proj.save()
                q2 = jedi.Project.load(os.path.abspath(str(ppath)))
                rt2['load'] = 'ok'
                rt2['q'] = pj.attrs(q2)
            except Exception as e:   # noqa
                rt2['save'] = type(e).__name__
            ev['rt2'] = [rt2]
        else:
            ev['rt2'] = []
        out['event'] = ev

        # -- discovery of the saved project from the script's directory
        if rt['save'] == 'ok' and rt['load'] == 'ok' and case['script'] and case['script'][0][:2] == ['r', 'p'] \
                and item.get('discover', True):
            try:
                dp = jedi.get_default_project(os.path.dirname(sabs))
                out['discovered'] = pj.attrs(dp)
            except Exception as e:   # noqa
                out['discovered'] = {'exc': type(e).__name__}
    except MachineryError:
        raise
    except Exception as e:   # noqa  -- the code under test raised where the property needs an answer
        import traceback
        from harness.core import crash_key
        out['exc'] = crash_key(e)
        out['tb'] = traceback.format_exc()[-1500:]
    finally:
        os.chdir(item['neutral'])
        if not item.get('keep'):
            shutil.rmtree(root, True)
    return out


def run_disc(item):
    """get_default_project on a chain of directories built from a TLC-emitted description."""
    from pathlib import Path
    import jedi
    chain = item['chain'][:-1]            # the last element is the plain root above the chain
    root = os.path.join(item['base'], 'd%06d' % item['idx'])
    os.makedirs(root)
    rng = random.Random(item['seed'])
    try:
        dirs = []
        d = root
        for i in range(len(chain), 0, -1):
            d = os.path.join(d, 'c%d' % i)
            dirs.append((i, d))
        os.makedirs(d)
        dirs.sort()
        for (i, d), k in zip(dirs, chain):
            if k['json']:
                jedi.Project(d, added_sys_path=['/c20_saved_%d' % i]).save()
            if k['init']:
                open(os.path.join(d, '__init__.py'), 'w').close()
            if k['django']:
                with open(os.path.join(d, 'manage.py'), 'w') as f:
                    f.write('import os\nos.environ.setdefault("DJANGO_SETTINGS_MODULE", "x.settings")\n')
            if k['marker']:
                open(os.path.join(d, rng.choice(['setup.py', 'requirements.txt', 'pyproject.toml'])), 'w').close()
        start = dirs[0][1]
        try:
            p = jedi.get_default_project(start if rng.random() < 0.5 else Path(start))
        except Exception as e:   # noqa
            from harness.core import crash_key
            return {'idx': item['idx'], 'exc': crash_key(e), 'chain': item['chain']}
        where = {dd: i for i, dd in dirs}
        where[root] = len(chain) + 1
        idx = where.get(str(p.path), 0)
        if p.added_sys_path == ['/c20_saved_%d' % idx]:
            how = 'load'
        elif p._django:
            how = 'django'
        else:
            how = 'plain'
        return {'idx': item['idx'], 'chain': item['chain'], 'res': {'idx': idx, 'how': how},
                'path': str(p.path)}
    finally:
        shutil.rmtree(root, True)


# ---------------------------------------------------------------- random scenarios (beyond the TLC bounds)
def sp(abs_, comps, ts=False):
    return {'abs': abs_, 'comps': list(comps), 'ts': ts}


def gen_case(rng):
    P = ['r', 'p']
    depth = rng.choice([0, 1, 1, 2, 2, 3, 3, 4, 4, 5, 6])
    dn = ['d1', 'd2', 'd3', 'd4', 'd5', 'd6']
    kind = rng.choice(['in', 'in', 'in', 'in', 'sib', 'up', 'none'])
    dirs = [['r', 'e1'], ['r', 'e2'], ['r', 'e3'], ['r', 'e1', 'sub'], ['r', 'a1'], ['r', 'a2'], P, ['r', 'p2'],
            P + dn[:1], P + dn[:2], P + dn[:3], ['r', 'p2', 'd1'], ['r', 'e1', 'sub', 'sub']]

    def entry(allow_path=True):
        if rng.random() < 0.06:
            return {'sp': sp(False, []), 'isPath': False}
        c = rng.choice(dirs)
        is_abs = rng.random() < 0.85
        return {'sp': sp(is_abs, c if is_abs else c[1:], rng.random() < 0.15),
                'isPath': allow_path and rng.random() < 0.3}
    explicit = rng.random() < 0.55
    base = [entry(explicit) for _ in range(rng.choice([0, 1, 2, 3, 4, 5, 6]))]
    if rng.random() < 0.3 and base:
        base.append(copy.deepcopy(rng.choice(base)))          # exact duplicates
    added = [entry() for _ in range(rng.choice([0, 0, 1, 2, 3, 4]))]
    if rng.random() < 0.3 and base:
        added.append(copy.deepcopy(rng.choice(base)))
    form = rng.choice([(True, False, False), (True, True, False), (False, False, False), (False, True, False),
                       (True, False, True), (False, False, True), (True, True, True)])
    path = {'sp': sp(form[0], P if form[0] else P[1:], form[2]), 'isPath': form[1]}
    r = rng.random()
    envp = [] if r < 0.6 else [{'sp': sp(True, ['r', 'venv', 'bin', 'python']), 'isPath': r > 0.9}]
    if kind == 'in':
        sdir = P + dn[:depth]
    elif kind == 'sib':
        sdir = ['r', 'p2'] + dn[:depth]
    else:
        sdir = ['r']
    inits = [sdir[:2 + i] for i in range(1, len(sdir) - 1) if rng.random() < 0.4] if kind in ('in', 'sib') else []
    case = {'args': {'path': path, 'envp': envp, 'sysp': [base] if explicit else [], 'added': added,
                     'smart': rng.random() < 0.7, 'unsafe': rng.random() < 0.3},
            'explicit': explicit,
            'env': [] if explicit else ('real' if rng.random() < 0.3 else [x['sp'] for x in base]),
            'script': [] if kind == 'none' else [sdir + ['s.py']], 'initDirs': inits}
    return case


def corpus_event(arg):
    """A real file of the repository, a Project on one of its ancestors, the real environment."""
    import jedi
    from pathlib import Path
    path, level, smart = arg
    pj = Projector(None, None)
    parents = list(Path(path).parents)
    pdir = str(parents[min(level, len(parents) - 1)])
    proj = jedi.Project(pdir, smart_sys_path=smart)
    env = jutil.env()
    s = jedi.Script('', path=path, project=proj, environment=env)
    st = s._inference_state
    R = [[str(x) for x in st.get_sys_path(**kw)] for kw in ({}, {'add_init_paths': True}, {'add_parent_paths': False})]
    inits = [pj.comps(str(d)) for d in parents if d.joinpath('__init__.py').is_file()]
    a = {'path': {'sp': pj.sp(pdir), 'isPath': False}, 'envp': [], 'sysp': [], 'added': [], 'smart': smart,
         'unsafe': False}
    ev = {'t': 'case', 'args': a, 'explicit': False, 'env': [pj.sp(x) for x in env.get_sys_path()],
          'script': [pj.comps(path)], 'initDirs': inits, 'p': pj.attrs(proj), 'rt': [], 'p2': [pj.attrs(proj)], 'rt2': [],
          'R0': [pj.sp(x) for x in R[0]], 'R1': [pj.sp(x) for x in R[1]], 'R2': [pj.sp(x) for x in R[2]], 'wins': []}
    return {'event': ev, 'concrete': {'path': path, 'project': pdir, 'R0': R[0]}}


# ---------------------------------------------------------------- verdict helpers
def shape(case):
    a = case['args']
    ps = a['path']['sp']
    pf = ('abs' if ps['abs'] else 'rel') + ('Path' if a['path']['isPath'] else 'str' + ('/' if ps['ts'] else ''))
    ef = 'none' if not a['envp'] else ('Path' if a['envp'][0]['isPath'] else 'str')
    return pf, ef


def why_sets(why):
    """REJECT payload (JSON of a record of clause-name sets) -> {part: [clauses]} for the non-empty parts."""
    if isinstance(why, str):
        try:
            why = json.loads(why)
        except ValueError:
            return {}
    out = {}
    if isinstance(why, dict):
        for k, v in why.items():
            cl = sorted(map(str, v)) if isinstance(v, list) else [str(v)]
            if cl:
                out[k] = cl
    return out


def report(ctx, viol, case, rt, verdict, replay, label):
    """Translate one rejected event into violations, one per failing clause, keyed by the input's shape."""
    pf, ef = shape(case)
    parts = why_sets(verdict['why'])
    if not parts:
        viol('%s:unexplained' % label, 'trace rejected without clause names', replay)
        return ['?']
    keys = []
    for part, clauses in sorted(parts.items()):
        for c in clauses:
            if part == 'ctor':
                continue
            if part == 'rt':
                exc = rt.get('save') if c == 'SaveRaises' else rt.get('load') if c == 'LoadRaises' else ''
                key = 'rt:%s%s:envp=%s' % (c, '(%s)' % exc if exc else '', ef)
                desc = 'save()/load() does not round-trip: %s' % c
            elif part in ('r0', 'r1', 'r2'):
                key = 'syspath:%s:proj=%s' % (c, pf)
                desc = 'the composed sys.path (%s) breaks clause %s' % (
                    {'r0': 'get_sys_path()', 'r1': 'get_sys_path(add_init_paths=True)',
                     'r2': 'get_sys_path(add_parent_paths=False)'}[part], c)
            elif part == 'imp':
                key = 'import:%s:proj=%s' % (c, pf)
                desc = 'import resolution breaks clause %s' % c
            else:
                key = '%s:%s' % (part, c)
                desc = 'clause %s' % c
            if key not in keys:
                keys.append(key)
                viol(key, desc, replay)
    if not keys and 'ctor' in parts:
        ctx.drift({'what': 'constructor stores something else than the arguments', 'case': replay})
    return keys


def compare_design(case, r):
    """Differences between the Design's prediction (TLC) and the observation."""
    ev = r['event']
    diffs = []
    if ev['p'] != case['p']:
        diffs.append(('attrs', case['p'], ev['p']))
    drt = dict(case['rt'])
    ort = dict(ev['rt'][0])
    if isinstance(drt.get('q'), dict):
        drt['q'] = {k: v for k, v in drt['q'].items() if k != 'django'}
    if drt != ort:
        diffs.append(('roundtrip', drt, ort))
    for k in ('R0', 'R1', 'R2'):
        if ev[k] != case[k]:
            diffs.append((k, case[k], ev[k]))
    for w in ev['wins']:
        if w['ij']:
            i, j = w['ij']
            if case['wins'][i][j] != w['w']:
                diffs.append(('winner', w['h'], case['wins'][i][j], w['w']))
    return diffs


def strip_event(ev):
    ev = dict(ev)
    ev['wins'] = [{'h': w['h'], 'w': w['w']} for w in ev['wins']]
    return ev


# ---------------------------------------------------------------- main
def run(ctx):
    seen_keys = {}

    def viol(key, desc, replay):
        """At most three replay files per shape key; known findings are always counted."""
        if seen_keys.get(key, 0) >= 3:
            ctx.count('violations_same_key_not_repeated')
            return
        if ctx.violation(key, desc, replay):
            seen_keys[key] = seen_keys.get(key, 0) + 1
    quick = ctx.quick
    base = os.path.realpath(ctx.sub('fs'))
    neutral = os.path.realpath(ctx.sub('neutral'))
    d = base
    while True:
        hit = [m for m in MARKERS if os.path.exists(os.path.join(d, m))]
        if hit and d != base:
            raise MachineryError('the temp directory lies below %s which contains %s; discovery and buildout '
                                 'assumptions of the check do not hold' % (d, hit))
        if d == '/':
            break
        d = os.path.dirname(d)
    if ctx.replay:
        rp = ctx.replay['replay']
        r = run_case(dict(rp['item'], base=base, neutral=neutral, keep=False))
        print(json.dumps({k: r.get(k) for k in ('concrete', 'event', 'exc', 'tb')}, indent=1, default=str)[:6000])
        if 'event' in r:
            vs = validate_traces('Trace_ProjectPath', 'Trace_ProjectPath.cfg', [[strip_event(r['event'])]], ctx, 'replay')
            print('TLC verdict:', vs[0])
            return 0 if vs[0]['accepted'] else 1
        return 1

    # 1. Design |= Reference, exhaustive in the bounded space
    if quick:
        confs = [dict(maxsys=2, maxadded=1, maxdepth=2, sysidx=(1, 3, 4, 5, 6, 7), addedidx=(1, 4, 7))]
    else:
        confs = [dict(maxsys=3, maxadded=1, maxdepth=1, sysidx=(1, 3, 4, 5, 6, 7), addedidx=(1, 3, 4, 6, 7)),
                 dict(maxsys=2, maxadded=2, maxdepth=4, sysidx=(1, 3, 4, 7, 10, 13, 14), addedidx=(7, 10))]
    for n, c in enumerate(confs):
        cfg = write_cfg(ctx, 'mc%d.cfg' % n, invs=INVS, **c)
        res = run_tlc('ProjectPath', cfg, workers=16, timeout=3000)
        ctx.add_tlc(res, 'Design|=Reference exhaustive %s' % c)
        ctx.log('exhaustive %s: %d states %.0fs' % (c, res.distinct, res.wall))
        if res.violated:
            raise MachineryError('ProjectPath.tla: design violates reference (%s); replay '
                                 'the counterexample, then repair the model or record the finding:\n%s'
                                 % (res.violated, res.trace[-1:]))
        if res.distinct < 50000:
            raise MachineryError('vacuity: only %d states' % res.distinct)
        if res.coverage:
            dead = [a for a in ('ChooseProject', 'AddBase', 'AddAdded', 'ChooseSettings', 'ChooseKind', 'Descend')
                    if res.coverage.get(a, 0) == 0]
            if dead:
                raise MachineryError('vacuity: actions never taken: %s' % dead)
    ctx.coverage['exhaustive'] = True
    cfg = write_cfg(ctx, 'disc.cfg', maxchain=3 if quick else 4, invs=['InvDiscover'], disc=True)
    res = run_tlc('ProjectPath', cfg, workers=16, timeout=3000)
    ctx.add_tlc(res, 'discovery Design|=Reference exhaustive, chains <= %d' % (3 if quick else 4))
    if res.violated:
        raise MachineryError('ProjectPath.tla: DesignDiscover violates RefDiscoverOK:\n%s' % res.trace[-1:])
    if res.distinct < 4000:
        raise MachineryError('vacuity: only %d discovery states' % res.distinct)

    items = []          # everything that is replayed on the real code
    meta = []           # (origin, case)

    def add_item(case, origin, **kw):
        i = len(items)
        items.append(dict(case=case, idx=i, base=base, neutral=neutral, scheme=(ctx.seed + i) % len(SCHEMES),
                          seed=ctx.seed * 1000003 + i, **kw))
        meta.append(origin)

    # 2. sensitivity of the model: the two repaired deviations, switched back on one at a time (what-if
    #    Designs), must still violate the strict Reference; their counterexamples are replayed on the real
    #    code, which must now show the repaired behaviour (accepted by the Reference, no violation)
    small = dict(maxsys=1, maxadded=1, maxdepth=2, sysidx=(1, 3), addedidx=(1, 4))
    cex_expected = {}
    for inv, fixenv, fixrel, shape_flag in (('CexRoundTrip', False, True, 'kfEnvPath'),
                                            ('CexSysPath', True, False, 'kfRelProject'),
                                            ('CexImport', True, False, 'kfRelProject')):
        cfg = write_cfg(ctx, inv + '.cfg', invs=[inv], fixenv=fixenv, fixrel=fixrel, **small)
        res = run_tlc('ProjectPath', cfg, workers=1, timeout=600)
        ctx.add_tlc(res, 'what-if %s with FixEnvPath=%s FixRelProject=%s (counterexample required)'
                    % (inv, fixenv, fixrel))
        cex = cases(res, 'CEX')
        if not res.violated or not cex:
            raise MachineryError('%s: the unrepaired what-if Design no longer violates the strict Reference; the '
                                 'spec has lost its sensitivity to this deviation' % inv)
        c = cex[0]
        if not c[shape_flag]:
            raise MachineryError('%s: what-if counterexample outside the expected shape: %s' % (inv, json.dumps(c)[:1500]))
        cex_expected[len(items)] = inv
        add_item(c, 'whatif:' + inv, pairs=99)
    ctx.coverage['whatif_design_counterexamples'] = sorted(cex_expected.values())

    # 3. emitted slice -> replay (spec -> code)
    if quick:
        mod, ec = 79, dict(maxsys=2, maxadded=1, maxdepth=2, sysidx=(1, 4, 5, 6, 7), addedidx=(1, 7))
    else:
        mod, ec = 127, dict(maxsys=2, maxadded=1, maxdepth=4, sysidx=(1, 3, 4, 5, 6, 7, 10, 12, 13),
                           addedidx=(1, 4, 7, 12))
    cfg = write_cfg(ctx, 'emit.cfg', mod=mod, rem=ctx.seed % mod, constraint='Emit', **ec)
    res = run_tlc('ProjectPath', cfg, workers=1, timeout=3000)
    ctx.add_tlc(res, 'case emission slice %d mod %d of %s' % (ctx.seed % mod, mod, ec))
    cs = cases(res)
    if len(cs) < 300:
        raise MachineryError('too few cases emitted: %d' % len(cs))
    ctx.log('emitted %d cases (%.0fs)' % (len(cs), res.wall))
    for c in cs:
        add_item(c, 'tlc', pairs=3 if quick else 4, env_set=True)
    n_tlc = len(items)

    # 4. random scenarios beyond the bounds (code -> spec)
    for _ in range(200 if quick else 1500):
        add_item(gen_case(ctx.rng), 'random', pairs=3, triples=True, env_set=True)

    ctx.log('replaying %d cases on the real code' % len(items))
    results = jutil.pmap(run_case, items, chunksize=8)
    jutil.check_worker_errors(results)

    # 5. discovery chains
    dmod = 11 if quick else 29
    cfg = write_cfg(ctx, 'disc_emit.cfg', maxchain=3 if quick else 4, mod=dmod, rem=ctx.seed % dmod,
                    constraint='EmitDisc', disc=True)
    res = run_tlc('ProjectPath', cfg, workers=1, timeout=3000)
    ctx.add_tlc(res, 'discovery chain emission')
    dcs = cases(res, 'DISC')
    if len(dcs) < 300:
        raise MachineryError('too few discovery chains emitted: %d' % len(dcs))
    dres = jutil.pmap(run_disc, [dict(chain=c['chain'], idx=i, base=base, seed=ctx.seed + i)
                                 for i, c in enumerate(dcs)], chunksize=8)
    jutil.check_worker_errors(dres)

    # 6. corpus: real files, real environment
    files = jutil.corpus_files(limit=30 if quick else 150, rng=ctx.rng)
    files = [f for f in files if not any(os.path.exists(os.path.join(str(d), 'buildout.cfg'))
                                         for d in __import__('pathlib').Path(f).parents)]
    cres = jutil.pmap(corpus_event, [(f, ctx.rng.randrange(0, 4), ctx.rng.random() < 0.8) for f in files])
    jutil.check_worker_errors(cres)

    # ---- judge everything with TLC
    traces, back = [], []
    for i, r in enumerate(results):
        if 'exc' in r:
            viol('crash:%s' % r['exc'], 'Project/Script/get_sys_path raised on a rendered case',
                          {'item': {k: v for k, v in items[i].items() if k not in ('base', 'neutral')},
                           'concrete': r.get('concrete'), 'tb': r.get('tb')})
            continue
        if r['oracle_py']:
            raise MachineryError('the Python layer of the spec disagrees with CPython: %s' % r['oracle_py'][:2])
        traces.append([strip_event(r['event'])])
        back.append(('case', i))
    for i, r in enumerate(dres):
        if 'exc' in r:
            viol('discover-crash:%s' % r['exc'], 'get_default_project raised', r)
            continue
        traces.append([{'t': 'disc', 'chain': r['chain'], 'res': r['res']}])
        back.append(('disc', i))
    for i, r in enumerate(cres):
        traces.append([r['event']])
        back.append(('corpus', i))
    ctx.log('validating %d traces' % len(traces))
    verdicts = validate_traces('Trace_ProjectPath', 'Trace_ProjectPath.cfg', traces, ctx, 'Trace_ProjectPath')

    stats = {'tlc_cases': 0, 'random_cases': 0, 'whatif_cases': 0, 'import_experiments': 0, 'oracle_import_checked': 0,
             'discovery_chains': 0, 'corpus_files': 0, 'nonstr_entries': 0}
    for v, (kind, i) in zip(verdicts, back):
        if kind == 'case':
            r, it, case = results[i], items[i], items[i]['case']
            ev = r['event']
            replay = {'item': {k: w for k, w in it.items() if k not in ('base', 'neutral')},
                      'concrete': r['concrete'], 'observed': ev, 'why': str(v['why'])}
            stats['tlc_cases' if meta[i] == 'tlc' else 'random_cases' if meta[i] == 'random' else 'whatif_cases'] += 1
            stats['import_experiments'] += len(ev['wins'])
            stats['nonstr_entries'] += len(r['nonstr'])
            keys = [] if v['accepted'] else report(ctx, viol, case, ev['rt'][0], v, replay, meta[i])
            # CPython's import system as judge of the Reference's reading of "first entry wins"
            imp_rejected = (not v['accepted']) and 'ImportUsesPath' in why_sets(v['why']).get('imp', [])
            pairs = list(zip(ev['wins'], r.get('oracle_import', [])))
            stats['oracle_import_checked'] += len(pairs)
            agree = [o == w['w'] for w, o in pairs]
            # accepted: jedi's winner = FirstHolding(R1) for every experiment, so PathFinder must agree with
            # it everywhere; rejected on ImportUsesPath: it must disagree somewhere
            if pairs and ((not imp_rejected and not all(agree)) or (imp_rejected and all(agree))):
                raise MachineryError('FirstHolding (Reference) disagrees with importlib.PathFinder: %s TLC verdict %s; %s'
                                     % ([(w['h'], 'PathFinder', o, 'jedi', w['w']) for w, o in pairs], v, r['concrete']))
            for w in ev['wins']:
                if w['n'] > 1:
                    ctx.drift({'what': 'import resolved to several modules', 'case': replay})
            if i in cex_expected:
                # rejected -> already reported above as a violation (the repair is gone); accepted -> repaired
                ctx.coverage.setdefault('whatif_counterexamples_on_real_code', {})[cex_expected[i]] = \
                    'repaired behaviour (accepted)' if v['accepted'] else 'REPRODUCED: %s' % keys
            if meta[i] == 'tlc' and 'p' in case:
                diffs = compare_design(case, r)
                if diffs:
                    ctx.drift({'case': {k: case[k] for k in ('args', 'env', 'script', 'initDirs')},
                               'concrete': r['concrete'], 'diffs': diffs[:3]})
            if 'discovered' in r and r['discovered'] != ev['rt'][0]['q']:
                pf, _ = shape(case)
                viol('discover:saved-project-not-loaded:proj=%s' % pf,
                              'get_default_project from the script directory does not return the saved settings',
                              dict(replay, discovered=r['discovered']))
            if meta[i] == 'tlc':
                ctx.sample({'origin': meta[i], 'args': r['concrete'], 'design_R0': case['R0'],
                            'observed_R0': ev['R0'], 'roundtrip': ev['rt'][0]['save'], 'wins': ev['wins'][:2]})
        elif kind == 'disc':
            r = dres[i]
            stats['discovery_chains'] += 1
            design = dcs[i]['res']
            dh = design['how'] if design['how'] in ('load', 'django') else 'plain'
            if not v['accepted']:
                viol('discover:nearest-saved-config-not-loaded',
                              'get_default_project does not load the nearest saved configuration', r)
            elif (design['idx'], dh) != (r['res']['idx'], r['res']['how']):
                ctx.drift({'what': 'discovery', 'chain': r['chain'], 'design': design, 'code': r['res']})
        else:
            r = cres[i]
            stats['corpus_files'] += 1
            if not v['accepted']:
                parts = why_sets(v['why'])
                for part, clauses in sorted(parts.items()):
                    for c in clauses:
                        viol('corpus:%s:%s' % (part, c), 'composed sys.path for a repository file breaks %s' % c,
                                      dict(r['concrete'], why=str(v['why'])))
    for k, n in stats.items():
        ctx.count(k, n)
    if stats['import_experiments'] < 300 or stats['tlc_cases'] < 300:
        raise MachineryError('too little replayed: %s' % stats)

    # 7. binding self-test: corrupted records must be rejected with the right clause
    good = None
    for v, (kind, i), t in zip(verdicts, back, traces):
        ev = t[0]
        if kind == 'case' and v['accepted'] and len(ev['R0']) >= 4 and ev['explicit'] and ev['args']['smart'] \
                and len(set(map(json.dumps, ev['R0'][1:3]))) == 2 and ev['wins'] and ev['rt'] \
                and ev['rt'][0]['save'] == 'ok' and all(x in ev['R0'][1:] for x in ev['p']['sysp'][0][:2]) \
                and len(ev['p']['sysp'][0]) >= 2 and ev['p']['sysp'][0][0] != ev['p']['sysp'][0][1] \
                and ev['R0'][0] not in ev['p']['sysp'][0][:2]:
            good = ev
            break
    if good is None and not ctx.violations:
        raise MachineryError('binding self-test: no suitable accepted trace')
    if good is None:
        ctx.notes.append('binding self-test skipped: no accepted trace of the needed shape (violations are reported)')
    else:
        bads = []
        b = copy.deepcopy(good)
        i0, i1 = b['R0'].index(b['p']['sysp'][0][0]), b['R0'].index(b['p']['sysp'][0][1])
        b['R0'][i0], b['R0'][i1] = b['R0'][i1], b['R0'][i0]
        bads.append(('r0', 'BaseKept', b))
        b = copy.deepcopy(good)
        b['R1'].append(b['R1'][1])
        bads.append(('r1', 'NoDup', b))
        b = copy.deepcopy(good)
        b['R2'][0] = {'abs': True, 'comps': ['r', 'zz'], 'ts': False}
        bads.append(('r2', 'ProjectFirst', b))
        b = copy.deepcopy(good)
        b['rt'][0]['q']['smart'] = not b['rt'][0]['q']['smart']
        bads.append(('rt', 'Settings', b))
        b = copy.deepcopy(good)
        b['wins'][0]['w'] = [] if b['wins'][0]['w'] else [b['wins'][0]['h'][0]]
        bads.append(('imp', 'ImportUsesPath', b))
        b = copy.deepcopy(good)
        b['R0'].append({'abs': True, 'comps': ['r', 'zz', 'y'], 'ts': False})
        bads.append(('r0', 'OnlyInside', b))
        n0 = ctx.coverage['traces_validated_against_impl']
        vs = validate_traces('Trace_ProjectPath', 'Trace_ProjectPath.cfg', [[x[2]] for x in bads] + [[good]], ctx,
                             'binding self-test')
        ctx.coverage['traces_validated_against_impl'] = n0
        for (part, clause, _), v in zip(bads, vs):
            if v['accepted'] or clause not in why_sets(v['why']).get(part, []):
                raise MachineryError('binding self-test: corrupted record (%s/%s) not rejected as expected: %s'
                                     % (part, clause, v))
        if not vs[-1]['accepted']:
            raise MachineryError('binding self-test: the uncorrupted record is rejected')
        ctx.coverage['binding_selftest'] = 'corrupted records rejected: %s' % [c for _, c, _ in bads]

    ctx.assumptions += [
        'path strings are compared as strings ("/x" and "/x/" are two entries), as _remove_duplicates_from_path does',
        'no buildout.cfg, project marker or .jedi directory above the temporary directory of the check',
        'relative sys.path entries are resolved by the helper interpreter against its own cwd, kept empty here',
        'round-trip equality of path-like settings is equality of the named path (repairs may normalise)',
        'an environment\'s sys.path is controlled by overriding Environment.get_sys_path of a SameEnvironment; '
        'the unmodified environment is used in 30% of the random scenarios and in the corpus leg']
    return None
