"""C08 -- answers do not depend on the editing history of a buffer.

spec/BufCache.tla: buffers, parso's per-path cache entry (incremental parse), derived caches keyed
on the entry, time caches, per-Script memo; TLC checks Fresh / NoStaleHit on every history of the
bounded model and that the what-if designs (derived caches keyed on the path, comparable signature
key, diff parser deviating) fail.  Editing histories (generated line programs and corpus files;
insert / delete / replace / indent / dedent / paste / undo; path-less buffers sharing one slot) are
executed in one process, one new Script per step, and every answer is compared with a process that
has never seen another text (forked from a cache-free base).  Trace_BufCache.tla replays each history.
"""
import json
import os
import random
import re
import subprocess

from harness import jutil
from harness.core import MachineryError, PY, VERIF, REPO
from harness.tlc import run_tlc, validate_traces, parse_tla

META = dict(
    spec='BufCache.tla, Trace_BufCache.tla',
    text='TLC explores every history of edits / new Scripts / queries / clock ticks over 2 slots (a path and the '
         'shared path-less slot), 2-3 texts, up to 3-4 parser-cache entries: answers are derived from the current text '
         'only (Fresh), no derived-cache entry reachable by the current Script stems from another text (NoStaleHit); '
         'three what-if designs must fail. Real histories of length 1..30 (quick ..12) over generated programs and '
         'corpus files are executed in one process with a new Script per step and all query results are compared '
         'with a fresh process per text; parso entry identity, stale derived-cache keys and the diff-parser proviso '
         '(tree dump equals a from-scratch parse) are logged and each history is validated by TLC.',
    note='A fresh process = a child forked from a base that imported jedi but parsed nothing; cases where parso\'s '
         'incremental tree differs from a fresh parse are excluded as the property states (counted in the evidence).',
    technique='TLA+ cache model (with what-if designs) model-checked with TLC; editing histories replayed on the real '
              'code against fresh-process answers; histories validated as traces by TLC',
    design_ref='5/C08')

LINES = ['def f(a):', '    return a', 'x = f(1)', 'f(', 'class C:', '    def m(self): pass', 'x.', '', 'y = C()', 'y.m',
         '    b = a', 'import os', 'def g(a, b=2):', '    return f(b)', 'z = g(', 'x = "s"', 'for i in [x]:', '    i']


def edit(text, rng, clip):
    lines = text.split('\n')
    op = rng.choice(['insert', 'delete', 'replace', 'indent', 'dedent', 'paste', 'char', 'dup'])
    i = rng.randrange(len(lines) + 1)
    if op == 'insert':
        lines.insert(i, rng.choice(LINES))
    elif op == 'delete' and len(lines) > 1:
        del lines[min(i, len(lines) - 1)]
    elif op == 'replace' and lines:
        lines[min(i, len(lines) - 1)] = rng.choice(LINES)
    elif op == 'indent' and lines:
        j = min(i, len(lines) - 1)
        k = min(len(lines), j + rng.randrange(1, 4))
        lines[j:k] = ['    ' + x for x in lines[j:k]]
    elif op == 'dedent' and lines:
        j = min(i, len(lines) - 1)
        k = min(len(lines), j + rng.randrange(1, 4))
        lines[j:k] = [x[4:] if x.startswith('    ') else x for x in lines[j:k]]
    elif op == 'paste':
        blk = clip or [rng.choice(LINES) for _ in range(3)]
        lines[i:i] = blk
    elif op == 'char' and lines:
        j = min(i, len(lines) - 1)
        ln = lines[j]
        c = rng.randrange(len(ln) + 1)
        lines[j] = ln[:c] + rng.choice(['(', ')', '.', 'a', ' ', ':', '=', '"']) + ln[c:] if rng.random() < 0.6 else ln[:max(0, c - 1)] + ln[c:]
    elif op == 'dup' and lines:
        j = min(i, len(lines) - 1)
        lines[j:j] = lines[j:j + 3]
    return '\n'.join(lines)


def make_history(rng, n, corpus):
    """-> steps [{slot, text}] mixing a path buffer and two path-less buffers (they share parso's None slot)."""
    bufs = {}
    hist = {}
    steps = []
    slots = ['p1', None, None]          # index 1 and 2 are two different unsaved buffers
    for k in range(3):
        if corpus and rng.random() < 0.4:
            bufs[k] = rng.choice(corpus)
        else:
            bufs[k] = '\n'.join(rng.choice(LINES) for _ in range(rng.randrange(1, 7)))
        hist[k] = [bufs[k]]
    for _ in range(n):
        k = rng.choice([0, 0, 1, 1, 2])
        r = rng.random()
        if r < 0.12 and len(hist[k]) > 1:
            hist[k].pop()
            bufs[k] = hist[k][-1]                       # undo
        elif r < 0.2:
            pass                                         # ask again about the same text
        else:
            clip = bufs[rng.randrange(3)].split('\n')[:3]
            bufs[k] = edit(bufs[k], rng, clip)
            hist[k].append(bufs[k])
        steps.append({'buffer': k, 'slot': slots[k], 'text': bufs[k]})
    return steps


# ---------------------------------------------------------------- spec -> code: what-if counterexamples replayed
# Text families: the variants of one family differ only in a definition; the call line, the cursor and the
# bracket position are the same in all of them (what jedi's signature time cache keys on).
def _family(header_variants, tail, names_q, sig_q):
    return {'texts': {str(i + 1): h + tail for i, h in enumerate(header_variants)}, 'names_q': names_q, 'sig_q': sig_q}


FAMILIES = {
    'function-params': _family(
        ['def foo(a):\n    return 1\n', 'def foo(a, b):\n    return ""\n', 'def foo(*, key):\n    return 1.5\n'],
        'y = foo()\ny\nx = foo(', ['infer', 4, 1], ['get_signatures', 5, 8]),
    'method-params': _family(
        ['class K:\n    def meth(self, a):\n        return 1\n', 'class K:\n    def meth(self, a, b=1):\n        return ""\n',
         'class K:\n    def meth(self, *args):\n        return 1.5\n'],
        'obj = K()\ny = obj.meth()\ny\nx = obj.meth(', ['infer', 6, 1], ['get_signatures', 7, 13]),
    'multi-line-call': _family(
        ['def foo(a, b):\n    return 1\n', 'def foo(a, b, c):\n    return ""\n', 'def foo(*a, **k):\n    return 1.5\n'],
        'y = foo()\ny\nx = foo(1,\n        2, ', ['infer', 4, 1], ['get_signatures', 6, 11]),
    'alias-switch': _family(
        ['def g1(a):\n    return 1\ndef g2(a, b):\n    return ""\nfoo = g1\n', 'def g1(a):\n    return 1\ndef g2(a, b):\n    return ""\nfoo = g2\n',
         'def g1(a):\n    return 1\ndef g2(*, k):\n    return ""\nfoo = g2\n'],
        'y = foo()\ny\nx = foo(', ['infer', 7, 1], ['get_signatures', 8, 8]),
    # the def line and the first body statement stay, the tail (a yield) changes: parso's diff parser keeps the funcdef node
    'generator-tail': _family(
        ['def gen():\n    first = 1\n    yield first\n', 'def gen():\n    first = 1\n    yield ""\n',
         'def gen():\n    first = 1\n    return [1.5]\n'],
        'for item in gen():\n    item\ny = gen\nx = gen(', ['infer', 5, 5], ['get_signatures', 7, 8]),
    'class-init': _family(
        ['class C:\n    def __init__(self, a):\n        self.v = 1\n', 'class C:\n    def __init__(self, a, b):\n        self.v = ""\n',
         'class C:\n    pass\n\n'],
        'y = C(0).v\ny\nx = C(', ['infer', 5, 1], ['get_signatures', 6, 6]),
}


SIG_SAME = {'generator-tail'}       # families whose texts differ only below the signature


def counterexample_behaviours(stdout, limit=200000):
    """All counterexamples of a `-continue` run: [(init buf, [step...])] from the action labels of the traces."""
    out = []
    seen = set()
    for block in stdout.split('Error: The behavior up to this point is:')[1:]:
        init, steps = None, []
        for m in re.finditer(r'State (\d+): <([^>]*)>\n((?:/\\ .*\n|  .*\n)*)', block):
            label = m.group(2).split(' line ')[0]
            if m.group(1) == '1':
                b = re.search(r'/\\ buf = (.*)', m.group(3))
                init = parse_tla(b.group(1))
                continue
            a = re.match(r'(\w+)(?:\((.*)\))?$', label)
            name, args = a.group(1), [x.strip().strip('"') for x in (a.group(2) or '').split(',') if x.strip()]
            if name == 'Edit':
                steps.append(['edit', args[0], int(args[1])])
            elif name == 'Tick':
                steps.append(['tick'])
            elif name == 'NewScript':
                steps.append(['script', args[0]])
            elif name == 'QueryNames':
                steps.append(['names'])
            elif name == 'QuerySig':
                steps.append(['sig'])
            else:
                raise MachineryError('unknown action label %r' % label)
        if init is None or not steps:
            continue
        key = json.dumps([init, steps], sort_keys=True)
        if key not in seen:
            seen.add(key)
            out.append((init, steps))
        if len(out) >= limit:
            break
    return out


def replay_model_behaviours(ctx, quick, rng):
    """Every what-if of BufCache.tla that TLC refutes yields counterexample behaviours: histories on which a design
    with that deviation answers from a stale text.  They are executed on the real code (one process, virtual clock)
    and Trace_BufBehaviour.tla judges the recorded steps against the model as coded."""
    from harness import cache_worker as cw
    behaviours = []
    for label, kw, share, clock in [('comparable signature cache key', dict(sig='TRUE'), 0.7, 2),
                                    ('derived caches keyed on the slot', dict(key='slot'), 0.3, 0)]:
        r = run_tlc('BufCache', cfg(ctx, 'wi_enum.cfg', '1, 2', 2 if quick else 3, clock if quick else 2, **kw), workers=1, timeout=1500, extra=('-continue',))
        ctx.add_tlc(r, 'what-if enumeration: %s (all counterexamples)' % label)
        bs = counterexample_behaviours(r.stdout)
        if len(bs) < 40:
            raise MachineryError('what-if "%s" produced only %d counterexample behaviours' % (label, len(bs)))
        ctx.coverage['whatif_counterexamples: ' + label] = len(bs)
        rng.shuffle(bs)
        n = int((260 if quick else 4000) * share)
        behaviours += [(label, b) for b in bs[:n]]
    fams = sorted(FAMILIES)
    proj = ctx.sub('mproj')
    jobs = []
    for i, (label, (init, steps)) in enumerate(behaviours):
        fam = fams[i % len(fams)]
        a, b = rng.sample([1, 2, 3], 2)               # the model's two texts are two of the family's three variants
        tmap = {1: a, 2: b}
        init = {s: tmap[t] for s, t in init.items()}
        steps = [[st[0], st[1], tmap[st[2]]] if st[0] == 'edit' else st for st in steps]
        full = [['edit', s, init[s]] for s in sorted(init)] + steps
        jobs.append({'family': fam, 'steps': full, 'label': label, 'init': init})
    # fresh-process reference answers: F(text) for every family x text x slot
    fresh_cases, fkey = [], {}
    for fam in fams:
        for t, text in FAMILIES[fam]['texts'].items():
            for slot in ('nopath', 'p1'):
                path = None if slot == 'nopath' else os.path.join(proj, slot + '.py')
                fkey[(fam, int(t), slot)] = len(fresh_cases)
                fresh_cases.append({'src': text, 'path': path, 'project': proj,
                                    'queries': [FAMILIES[fam]['names_q'], FAMILIES[fam]['sig_q']]})
    fresh = cw.fresh_answers(fresh_cases)
    for fr in fresh:
        if fr is None or 'error' in fr:
            raise MachineryError('fresh worker failed: %s' % fr)
    # the families must be able to tell the texts apart, else the replay is vacuous
    for fam in fams:
        for qi in (0, 1):
            if qi == 1 and fam in SIG_SAME:
                continue
            if len(set(fresh[fkey[(fam, t, 'p1')]]['answers'][qi][0] for t in (1, 2, 3))) < 2:
                raise MachineryError('family %s: query %d does not distinguish the texts' % (fam, qi))
    nshard = 8
    d = ctx.sub('mbeh')
    env = dict(os.environ, VERIF_REPO=REPO, PYTHONPATH=REPO + os.pathsep + VERIF)
    procs = []
    for k in range(nshard):
        jp, op = os.path.join(d, 'j%d.json' % k), os.path.join(d, 'o%d.json' % k)
        with open(jp, 'w') as f:
            json.dump([{'families': FAMILIES, 'behaviours': jobs[k::nshard], 'project': proj, 'tick': 3.5}], f)
        procs.append((subprocess.Popen([PY, os.path.join(VERIF, 'harness', 'cache_worker.py'), 'model', jp, op], env=env,
                                       stdout=subprocess.PIPE, stderr=subprocess.STDOUT), op))
    results = [None] * len(jobs)
    for k, (p, op) in enumerate(procs):
        so, _ = p.communicate(timeout=3000)
        if p.returncode != 0:
            raise MachineryError('model-behaviour worker failed: %s' % so.decode()[-1500:])
        for j, r in enumerate(json.load(open(op))[0]):
            results[k + j * nshard] = r
    traces = []
    nq = 0
    for job, res in zip(jobs, results):
        ev = [{'act': 'init', 'init': {'nopath': 0, 'p1': 0}}]
        qi = 0
        for st in job['steps']:
            if st[0] == 'edit':
                ev.append({'act': 'edit', 'slot': st[1], 'text': st[2]})
            elif st[0] == 'tick':
                ev.append({'act': 'tick'})
            elif st[0] == 'script':
                ev.append({'act': 'script', 'slot': st[1]})
            else:
                got = res[qi]
                qi += 1
                nq += 1
                want = fresh[fkey[(job['family'], got['text'], got['slot'])]]['answers'][0 if st[0] == 'names' else 1]
                ev.append({'act': st[0], 'same': got['answer'][0] == want[0]})
                if got['answer'][0] != want[0]:
                    job.setdefault('diffs', []).append({'query': st[0], 'slot': got['slot'], 'text': got['text'],
                                                        'got': got['answer'][2], 'fresh_process': want[2]})
        traces.append(ev)
    ctx.coverage['model_behaviours_replayed'] = len(jobs)
    ctx.coverage['model_behaviour_queries'] = nq
    p = os.path.join(ctx.tmp, 'tbb.cfg')
    with open(p, 'w') as f:
        f.write(TCFG.replace('Texts = {}', 'Texts = {1, 2, 3}').replace('MaxClock = 1', 'MaxClock = 50'))
    vs = validate_traces('Trace_BufBehaviour', p, traces, ctx, 'Trace_BufBehaviour', chunk=1000)
    for v, job in zip(vs, jobs):
        if not v['accepted']:
            why = ','.join(v['why'] or ['?'])
            if why != 'AnswerNotFromCurrentText':
                raise MachineryError('model behaviour not replayable: %s at %s: %s' % (why, v['at'], job['steps']))
            q = (job.get('diffs') or [{}])[0].get('query', '?')
            ctx.violation('model-behaviour:%s:%s:%s' % (why, q, job['family']),
                          'a behaviour of BufCache.tla (counterexample of the what-if "%s") executed on the real code gives an '
                          'answer that a fresh process does not give for the same text' % job['label'],
                          {'family': job['family'], 'texts': FAMILIES[job['family']]['texts'], 'steps': job['steps'],
                           'differences': job.get('diffs', [])[:3]})
    # binding self-test: a stale answer must be rejected
    import copy
    bad = None
    for t in traces:
        if any(e['act'] in ('names', 'sig') for e in t):
            bad = copy.deepcopy(t)
            [e for e in bad if e['act'] in ('names', 'sig')][-1]['same'] = False
            break
    n0 = ctx.coverage['traces_validated_against_impl']
    bv = validate_traces('Trace_BufBehaviour', p, [bad], ctx, 'binding self-test (model behaviour)')
    ctx.coverage['traces_validated_against_impl'] = n0
    if bv[0]['accepted']:
        raise MachineryError('binding self-test: stale answer in a model behaviour accepted')


CFG = '''SPECIFICATION Spec
CONSTANTS
  Slots = {"nopath", "p1"}
  NoText = 0
  Texts = {%s}
  MaxGen = %d
  MaxClock = %d
  Validity = 1
  DerivedKey = "%s"
  SigKeyComparable = %s
  ParsoDeviates = %s
INVARIANT Fresh
INVARIANT NoStaleHit
CHECK_DEADLOCK FALSE
'''
TCFG = '''INIT TInit
NEXT TNext
CONSTANTS
  Slots = {"nopath", "p1"}
  NoText = 0
  Texts = {}
  MaxGen = 80
  MaxClock = 1
  Validity = 1
  DerivedKey = "entry"
  SigKeyComparable = FALSE
  ParsoDeviates = FALSE
CONSTRAINT Verdict
CHECK_DEADLOCK FALSE
'''


def cfg(ctx, name, texts, maxgen, clock, key='entry', sig='FALSE', dev='FALSE'):
    p = os.path.join(ctx.tmp, name)
    with open(p, 'w') as f:
        f.write(CFG % (texts, maxgen, clock, key, sig, dev))
    return p


def run(ctx):
    quick = ctx.quick
    rng = ctx.rng
    # ---- 1. TLC
    res = run_tlc('BufCache', cfg(ctx, 'mc.cfg', '1, 2' if quick else '1, 2, 3', 3 if quick else 4, 1 if quick else 2),
                  workers=16, timeout=3000)
    ctx.add_tlc(res, 'design as coded: Fresh, NoStaleHit')
    if res.violated:
        ctx.violation('design:%s' % res.violated, 'BufCache.tla violates %s' % res.violated, {'trace': res.trace[-3:]})
        return ctx.finish()
    if res.distinct < 2000:
        raise MachineryError('vacuity: %d states' % res.distinct)
    ctx.coverage['exhaustive'] = True
    for label, kw in [('derived caches keyed on the slot', dict(key='slot')),
                      ('comparable signature cache key', dict(sig='TRUE')),
                      ('diff parser deviates (proviso broken)', dict(dev='TRUE'))]:
        r = run_tlc('BufCache', cfg(ctx, 'whatif.cfg', '1, 2', 3, 2, **kw), workers=8, timeout=900)
        ctx.add_tlc(r, 'what-if: %s (must fail)' % label)
        if not r.violated:
            raise MachineryError('what-if "%s" did not fail: model insensitive' % label)
        ctx.coverage['whatif: ' + label] = 'violates %s' % r.violated
    # ---- 1b. behaviours of the model executed on the real code
    replay_model_behaviours(ctx, quick, rng)
    # ---- 2. real histories in one process
    corpus = []
    for f in jutil.corpus_files(limit=12 if quick else 40, rng=rng):
        with open(f, encoding='utf-8') as fh:
            t = fh.read()
        if 200 < len(t) < 6000:
            corpus.append(t)
    nh, maxlen = (24, 12) if quick else (160, 30)
    wrng = random.Random(ctx.seed + 5)
    jobs, fresh_cases, index = [], [], []
    from harness import cache_worker as cw
    proj = ctx.sub('proj')
    with open(os.path.join(proj, 'p1.py'), 'w') as f:
        f.write('# on disk\n')
    p1 = os.path.join(proj, 'p1.py')
    for h in range(nh):
        steps = make_history(rng, rng.randrange(1, maxlen + 1), corpus)
        js = []
        for st in steps:
            qs = [[wrng.choice(cw.QUERY_METHODS), l, c] for (l, c) in cw.positions(st['text'], 5 if quick else 8, wrng)]
            qs.append(['get_names', 0, 0])
            path = p1 if st['slot'] == 'p1' else None
            js.append({'slot': path, 'text': st['text'], 'queries': qs})
            fresh_cases.append({'src': st['text'], 'path': path, 'queries': qs, 'project': proj, 'want_dump': True})
            index.append((h, len(js) - 1))
        jobs.append({'steps': js, 'project': proj, 'abstract': steps})
    ctx.log('%d histories, %d steps' % (nh, len(fresh_cases)))
    # long-lived processes (one per history group)
    nshard = 12
    procs = []
    d = ctx.sub('hist')
    env = dict(os.environ, VERIF_REPO=REPO, PYTHONPATH=REPO + os.pathsep + VERIF)
    for k in range(nshard):
        jp, op = os.path.join(d, 'j%d.json' % k), os.path.join(d, 'o%d.json' % k)
        with open(jp, 'w') as f:
            json.dump([{'steps': j['steps'], 'project': j['project']} for j in jobs[k::nshard]], f)
        procs.append((subprocess.Popen([PY, os.path.join(VERIF, 'harness', 'cache_worker.py'), 'history', jp, op], env=env,
                                       stdout=subprocess.PIPE, stderr=subprocess.STDOUT), op))
    hist_out = [None] * nh
    for k, (p, op) in enumerate(procs):
        so, _ = p.communicate(timeout=3000)
        if p.returncode != 0:
            raise MachineryError('history worker failed: %s' % so.decode()[-1500:])
        for j, r in enumerate(json.load(open(op))):
            hist_out[k + j * nshard] = r
    ctx.log('fresh-process answers for %d texts' % len(fresh_cases))
    fresh = cw.fresh_answers(fresh_cases)
    for fr in fresh:
        if fr is None or 'error' in fr:
            raise MachineryError('fresh worker failed: %s' % fr)
    # ---- 3. traces
    # A difference only counts when the fresh-process answer itself is reproducible: queries whose result is
    # not deterministic across fresh processes (property C16, known finding there) cannot be judged here.
    suspects = []
    fi = 0
    for h, job in enumerate(jobs):
        for si, st in enumerate(job['steps']):
            got, fr = hist_out[h][si], fresh[fi]
            if got['dump'] == fr['dump'] and [a[0] for a in got['answers']] != [a[0] for a in fr['answers']]:
                suspects.append(fi)
            fi += 1
    unstable = {}
    if suspects:
        again = [cw.fresh_answers([dict(fresh_cases[i], perturb=17 * (rnd + 1) + i) for i in suspects]) for rnd in range(4)]
        for k, i in enumerate(suspects):
            base = [a[0] for a in fresh[i]['answers']]
            bad = set()
            for rnd in again:
                for qi, a in enumerate(rnd[k]['answers']):
                    if a[0] != base[qi]:
                        bad.add(qi)
            unstable[i] = bad
    ctx.coverage['queries_excluded_nondeterministic_in_fresh_processes'] = sum(len(v) for v in unstable.values())
    traces = []
    tid_text = {}
    excluded = 0
    fi = 0
    for h, job in enumerate(jobs):
        ev = []
        for si, st in enumerate(job['steps']):
            got, fr = hist_out[h][si], fresh[fi]
            skip = unstable.get(fi, set())
            fi += 1
            same = all(a[0] == b[0] for qi, (a, b) in enumerate(zip(got['answers'], fr['answers'])) if qi not in skip)
            dump_ok = got['dump'] == fr['dump']
            if not dump_ok:
                excluded += 1
            t = tid_text.setdefault(st['text'], len(tid_text) + 1)
            ev.append({'slot': 'p1' if st['slot'] else 'nopath', 'text': t, 'item': got['item'], 'fresh': bool(same),
                       'dump': bool(dump_ok), 'stale': max(got['stale_derived'], 0)})
            if dump_ok and not same:
                bad = [(q, a[2], b[2]) for qi, (q, a, b) in enumerate(zip(st['queries'], got['answers'], fr['answers']))
                       if a[0] != b[0] and qi not in skip][:2]
                job.setdefault('diffs', []).append({'step': si, 'differences': bad})
        traces.append(ev)
    ctx.coverage['steps_excluded_parso_proviso_not_met'] = excluded
    vs = validate_traces('Trace_BufCache', _tcfg(ctx), traces, ctx, 'Trace_BufCache', chunk=400)
    ident_notes = 0
    for v, job in zip(vs, jobs):
        ident_notes += len(v['notes'])
        if not v['accepted']:
            why = v['why'] or ['?']
            at = v['at'] or 1
            ctx.violation('history:%s' % ','.join(why), 'after an editing history the answers differ from a fresh process '
                          '(%s)' % why,
                          {'steps': [{'buffer': s['buffer'], 'slot': s['slot'], 'text': s['text']} for s in job['abstract'][:at]],
                           'queries_of_last_step': job['steps'][at - 1]['queries'] if at - 1 < len(job['steps']) else None,
                           'differences': job.get('diffs', [])[:2]})
    if ident_notes:
        ctx.drift({'cache_entry_identity_differs_from_model_in_steps': ident_notes})
    ctx.sample({'history': [{'slot': s['slot'], 'text': s['text'][:80]} for s in jobs[0]['abstract'][:4]]})
    ctx.sample({'history_length': [len(j['steps']) for j in jobs][:12]})
    # binding self-test
    import copy
    bad = copy.deepcopy(traces[0])
    bad[-1]['fresh'] = False
    bad[-1]['dump'] = True
    n0 = ctx.coverage['traces_validated_against_impl']
    bv = validate_traces('Trace_BufCache', _tcfg(ctx), [bad], ctx, 'binding self-test')
    ctx.coverage['traces_validated_against_impl'] = n0
    if bv[0]['accepted']:
        raise MachineryError('binding self-test: history-dependent answer accepted')
    ctx.coverage['binding_selftest'] = 'history-dependent answer rejected: %s' % bv[0]['why']
    return None


def _tcfg(ctx):
    p = os.path.join(ctx.tmp, 'tb.cfg')
    if not os.path.exists(p):
        with open(p, 'w') as f:
            f.write(TCFG)
    return p
