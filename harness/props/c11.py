"""C11 -- signatures and docstrings mirror the definition; index locates the argument.

spec/Signature.tla: Reference (Python's parameter kinds, binding of self, call binding of the
argument being typed, grammar of parameter lists) versus Design (get_kind, get_public_name,
TreeSignature params[1:], to_string, _iter_arguments, calculate_index, process_params' **kwargs
path), checked exhaustively by TLC in three modes (index / render / wrap).  TLC-emitted cases are
rendered to source in several forms and replayed into Script.get_signatures (spec -> code) with
CPython (inspect.signature, real calls, inspect.getdoc) as oracle of the Reference; recorded
observations of rendered, random larger and corpus-derived cases are judged by TLC against the
Reference (Trace_Signature.tla, code -> spec).
"""
import ast
import copy
import inspect
import itertools
import json
import keyword
import os
import random

from harness import jutil
from harness.core import MachineryError
from harness.tlc import run_tlc, cases, validate_traces

META = dict(
    spec='Signature.tla, Trace_Signature.tla',
    text='TLC checks exhaustively that the line-for-line transcription of jedi\'s get_kind / params[1:] / '
         'to_string / _iter_arguments / calculate_index / process_params(**kwargs path) satisfies a Reference '
         'written from Python\'s rules (kinds as inspect.signature reports them, binding of self, which '
         'parameter the argument being typed binds to = Acceptable(Bind), grammar) for all parameter lists of '
         '<=3 (quick) / <=4 (thorough) parameters over {PO,PK,*args,KO,**kw} x name pool {a,ab,b,__x} x all '
         'syntactically valid call prefixes of <=2 / <=3 arguments x 17 slots; default/annotation x 5 call '
         'forms in render mode; **kwargs pass-through wrappers in wrap mode. Emitted cases are rendered '
         '(function, method, classmethod, staticmethod, class __init__; open/closed/multi-line call) and '
         'replayed into Script.get_signatures: params, kinds, to_string round trip, bracket_start, index are '
         'compared with the model and judged by CPython (inspect.signature of the executed object, real calls '
         'of a twin function for binding, compile of to_string, inspect.getdoc). Recorded observations '
         '(rendered cases, random lists of <=6 parameters x prefixes <=5, parameter lists of the corpus) are '
         'judged by TLC against the Reference (Trace_Signature).',
    note='Named deviations confirmed on the unchanged tree are known findings (dunder parameters, *expr after a '
         'keyword, name= duplicating a filled positional falling into **kwargs, bound method whose first '
         'parameter is *args, three docstring shapes, one wrapper shape). *args forwarding wrappers crash in '
         'this tree (typeshed absent: RecursionError in klass.get_filters) and are counted as blocked, only '
         '**kwargs forwarding is modelled. Default/annotation values are literals/names; functools.wraps is '
         'not used (hand-written wrappers). Trusts TLC, CPython as oracle, the harness renderer.',
    technique='TLA+ spec (Design|=Reference modulo named deviations) model-checked with TLC; spec->code replay '
              'of emitted cases with CPython oracle; code->spec trace validation of recorded observations',
    design_ref='5/C11')

CFG = '''INIT Init
NEXT Next
CONSTANTS
  MaxParams = %d
  MaxArgs = %d
  Mode = "%s"
  EmitMod = %d
  EmitRem = %d
  EmitParts = %d
  EmitPart = %d
%s
CHECK_DEADLOCK FALSE
'''
INV = {'index': ['IndexOK', 'DevTight', 'MirrorOK', 'KindOK', 'RoundTripOK', 'GrammarOK'],
       'render': ['MirrorOK', 'KindOK', 'RoundTripOK', 'GrammarOK', 'DocOK'],
       'wrap': ['WrapperOK', 'WrapRoundTripOK'],
       }


def write_cfg(ctx, name, mode, maxp, maxa, mod=1, rem=0, emit=False, parts=1, part=0):
    p = os.path.join(ctx.tmp, name)
    body = 'CONSTRAINT Emit\nCONSTRAINT InPart' if emit else '\n'.join('INVARIANT %s' % i for i in INV[mode])
    with open(p, 'w') as f:
        f.write(CFG % (maxp, maxa, mode, mod, rem, parts, part, body))
    return p


def tlc_batch(ctx, jobs):
    """Run several TLC processes concurrently (at most 14 JVMs at a time, in the order given).
    job = (label, cfg path, workers[, extra run_tlc keywords]).  Returns results in order."""
    from concurrent.futures import ThreadPoolExecutor
    with ThreadPoolExecutor(max_workers=min(14, len(jobs))) as ex:
        futs = [ex.submit(run_tlc, 'Signature', j[1], workers=j[2], timeout=6000, **(j[3] if len(j) > 3 else {}))
                for j in jobs]
        out = [f.result() for f in futs]
    for j, res in zip(jobs, out):
        ctx.add_tlc(res, j[0])
    return out


# ---------------------------------------------------------------- abstract -> source
KINDS = {'POSITIONAL_ONLY': 'PO', 'POSITIONAL_OR_KEYWORD': 'PK', 'VAR_POSITIONAL': 'VP',
         'KEYWORD_ONLY': 'KO', 'VAR_KEYWORD': 'VK'}
DEFAULTS = ['1', "'d'", 'None', '(1, 2)']
ANNOTS = ['int', "'T'", 'str', 'list']
POSARGS = ['1', 'q', 'g(2)', "'s'", 'q.r', '[1, 2]']
FORMS = ['func', 'method', 'classmethod', 'staticmethod', 'init']
# 'trailing': the call is complete and MORE arguments follow the cursor (the argument being typed is not the last one)
VARIANTS = ['open', 'closed', 'multiline', 'nested', 'nested-closed', 'trailing', 'trailing']


def tok(t, name='', stars=0, df=False, an=False):
    return {'t': t, 'name': name, 'stars': stars, 'def': df, 'ann': an}


def norm_defn(defn):
    """TLC JSON -> tokens with str names."""
    return [tok(k['t'], jutil.dec(k['name']), k['stars'], k['def'], k['ann']) for k in defn]


def norm_call(call):
    return [{'t': c['t'], 'name': jutil.dec(c['name'])} for c in call]


def norm_slot(slot):
    return {'t': slot['t'], 's': jutil.dec(slot['s'])}


def ref_kinds(defn):
    """Python's rule (mirror of RefKind, used for the all-defaults twin only)."""
    out = []
    for i, k in enumerate(defn):
        if k['t'] != 'param':
            continue
        if k['stars'] == 1:
            kind = 'VP'
        elif k['stars'] == 2:
            kind = 'VK'
        elif any(x['t'] == '/' for x in defn[i + 1:]):
            kind = 'PO'
        elif any(x['t'] == '*' or x['stars'] == 1 for x in defn[:i]):
            kind = 'KO'
        else:
            kind = 'PK'
        out.append((k['name'], kind))
    return out


def params_text(defn, all_defaults=False):
    parts = []
    n = 0
    for k in defn:
        if k['t'] != 'param':
            parts.append(k['t'])
            continue
        s = '*' * k['stars'] + k['name']
        if k['ann'] and not all_defaults:
            s += ': ' + ANNOTS[n % len(ANNOTS)]
        if not k['stars'] and (k['def'] or all_defaults):
            s += ('=' if not (k['ann'] and not all_defaults) else ' = ') + \
                 ('None' if all_defaults else DEFAULTS[n % len(DEFAULTS)])
        parts.append(s)
        n += 1
    return ', '.join(parts)


def render_program(defn, form, call, slot, variant, doc=None, ret=False):
    """Returns dict(src, line, col, bracket, head (source without the call), callee)."""
    ptxt = params_text(defn)
    arrow = ' -> int' if ret else ''
    body = ['pass'] if doc is None else doc + ['return None']
    pre = ['q = 0', 'x = ()', 'def g(v): return v']
    if form == 'func':
        lines = ['def f(%s)%s:' % (ptxt, arrow)] + ['    ' + b for b in body]
        callee = 'f'
    else:
        deco = {'classmethod': ['    @classmethod'], 'staticmethod': ['    @staticmethod']}.get(form, [])
        mname = '__init__' if form == 'init' else 'm'
        lines = ['class K:'] + deco + ['    def %s(%s)%s:' % (mname, ptxt, arrow if form != 'init' else '')] + \
                ['        ' + b for b in body]
        callee = {'method': 'K().m', 'classmethod': 'K.m', 'staticmethod': 'K().m', 'init': 'K'}[form]
    head = pre + lines
    args = []
    for i, c in enumerate(call):
        if c['t'] == 'pos':
            args.append(POSARGS[(i + len(call)) % len(POSARGS)])
        elif c['t'] == 'kw':
            args.append('%s=%d' % (c['name'], i))
        elif c['t'] == 'star':
            args.append('*x')
        else:
            args.append('**x')
    st = {'empty': '', 'frag': slot['s'], 'kweq': slot['s'] + '=', 'star': '*' + slot['s'],
          'dstar': '**' + slot['s']}[slot['t']]
    # 'nested': the call is itself an argument of another call that is being typed
    outer = 'g(0, ' if variant in ('nested', 'nested-closed') else ''
    if variant == 'multiline':
        sep = ',\n    '
        text = callee + '(' + ('\n    ' if args else '') + sep.join(args) + (sep if args else '') + st
    else:
        text = outer + callee + '(' + ''.join(a + ', ' for a in args) + st
    call_lines = text.split('\n')
    line = len(head) + len(call_lines)
    col = len(call_lines[-1])
    tail = []
    if variant in ('closed', 'multiline', 'nested-closed'):
        call_lines[-1] += '))' if outer else ')'
        tail = ['y = 1']
    elif variant == 'trailing':
        # what follows the cursor does not change which parameter Python binds the argument under the cursor to;
        # a positional may only follow while no keyword / star argument has been given; an empty slot gets nothing
        # behind it (`f(1, <cursor>, 0)` would be a syntax error): it is rendered like 'closed'
        simple = slot['t'] == 'frag' and all(c['t'] == 'pos' for c in call)
        if st:
            call_lines[-1] += ', 0, 0)' if simple else ', zz_=0)'
        else:
            call_lines[-1] += ')'
        tail = ['y = 1']
    src = '\n'.join(head + call_lines + tail) + ('\n' if tail else '')
    callee_col = len(outer)
    return {'src': src, 'line': line, 'col': col, 'bracket': [len(head) + 1, callee_col + len(callee)],
            'head': '\n'.join(head) + '\n', 'callee': callee, 'name_col': callee_col + len(callee) - 1}


# ---------------------------------------------------------------- CPython oracle
def insp_params(sig):
    out = []
    for p in sig.parameters.values():
        out.append({'name': p.name, 'kind': KINDS[p.kind.name], 'def': p.default is not p.empty,
                    'ann': p.annotation is not p.empty, '_default': p.default, '_annotation': p.annotation})
    return out


class _Sent:
    def __repr__(self):
        return 'SENT'


SENT = _Sent()


def oracle_acceptable(defn, call, slot):
    """Which parameters can the argument being typed bind to?  Decided by real calls of a twin
    function (same parameter list, every parameter defaulted, returns its locals).  Worlds: each
    completed *x contributes k positionals; **x contributes nothing.  Returns (prefix_ok, set of
    1-based indices)."""
    pk = ref_kinds(defn)
    names = [n for n, _ in pk]
    kinds = [k for _, k in pk]
    src = 'def twin(%s): return {%s}' % (params_text(defn, all_defaults=True),
                                         ', '.join('%r: %s' % (n, n) for n in names))
    g = {}
    exec(src, g)
    twin = g['twin']
    n = len(names)
    nstar = sum(1 for c in call if c['t'] == 'star')
    kws = [c['name'] for c in call if c['t'] == 'kw']
    kwsyntax = any(c['t'] in ('kw', 'dstar') for c in call)
    npos0 = sum(1 for c in call if c['t'] == 'pos')
    acc, prefix_ok = set(), False

    def find(res):
        for i, nm in enumerate(names):
            v = res[nm]
            if v is SENT:
                return i + 1
            if kinds[i] == 'VP' and any(e is SENT for e in v):
                return i + 1
            if kinds[i] == 'VK' and any(e is SENT for e in v.values()):
                return i + 1
        return None

    def run(pos, kw):
        try:
            return twin(*pos, **kw)
        except TypeError:
            return None

    for ks in itertools.product(range(n + 2), repeat=nstar):
        base = [0] * (npos0 + sum(ks))
        kw = {k: 0 for k in kws}
        if run(base, kw) is None:
            continue
        prefix_ok = True

        def trykw(name):
            if name in kw:
                return
            r = run(base, dict(kw, **{name: SENT}))
            if r is not None:
                acc.add(find(r))

        t, s = slot['t'], slot['s']
        if t in ('empty', 'frag'):
            if not kwsyntax:
                r = run(base + [SENT], kw)
                if r is not None:
                    acc.add(find(r))
            fresh = s + 'zq'
            while fresh in names or fresh in kw:
                fresh += 'q'
            for nm in [nm for nm in names if nm.startswith(s)] + [fresh]:
                trykw(nm)
        elif t == 'kweq':
            trykw(s)
        elif t == 'star':
            for k in range(1, n + 2):
                rs = [run(base + [0] * j + [SENT] + [0] * (k - 1 - j), kw) for j in range(k)]
                if any(r is None for r in rs):
                    break
                acc.update(find(r) for r in rs)
        else:
            fresh = 'zq'
            while fresh in names or fresh in kw:
                fresh += 'q'
            for nm in names + [fresh]:
                trykw(nm)
    acc.discard(None)
    return prefix_ok, acc


def index_agrees(prefix_ok, acc, idx):
    if not prefix_ok:
        return True
    return idx == 0 if not acc else idx in acc


def same_param(a, b, g):
    """jedi-side param dict (with texts) equals CPython-side param (with values)?"""
    if a['name'] != b['name'] or a['kind'] != b['kind'] or a['def'] != b['def'] or a['ann'] != b['ann']:
        return False
    try:
        if a['def'] and eval(a['_dtext'], g) != b['_default']:
            return False
        if a['ann'] and eval(a['_atext'], g) != b['_annotation']:
            return False
    except Exception:  # noqa  the text jedi shows does not even evaluate
        return False
    return True


def split_param_string(s):
    """'*name: ann=default' -> (annotation text, default text) using the Python parser."""
    src = 'def _(%s): pass' % s
    a = ast.parse(src).body[0].args
    arg = (a.posonlyargs + a.args + ([a.vararg] if a.vararg else []) + a.kwonlyargs +
           ([a.kwarg] if a.kwarg else []))[0]
    ann = ast.get_source_segment(src, arg.annotation) if arg.annotation else None
    dfl = a.defaults + [d for d in a.kw_defaults if d is not None]
    dft = ast.get_source_segment(src, dfl[0]) if dfl else None
    return ann, dft


# ---------------------------------------------------------------- observation of the real code
def buffer_script(src):
    """Every case is analysed the way an editor asks: as the new text of ONE buffer with a path, in a process that
    has answered for other texts of that buffer just before (the signature must mirror the definition in THIS
    text whatever was asked before; the call signature time cache is keyed on path + text before the bracket)."""
    import tempfile
    global _BUF
    if _BUF is None or _BUF[0] != os.getpid():
        # the file is never created: only the name matters
        base = os.environ.get('VERIF_CACHE_BASE') or tempfile.gettempdir()
        _BUF = (os.getpid(), os.path.join(base, 'c11buf_%d' % os.getpid(), 'c11_buffer.py'))
    return jutil.script(src, path=_BUF[1])


_BUF = None



def observe(job):
    """job: dict(defn, form, call, slot, variant, ret) with str names.  Runs jedi and CPython."""
    defn, form, call, slot = job['defn'], job['form'], job['call'], job['slot']
    r = render_program(defn, form, call, slot, job.get('variant', 'open'), ret=job.get('ret', False))
    out = {'job': job, 'src': r['src'], 'pos': [r['line'], r['col']]}
    # CPython side
    g = {}
    exec(compile(r['head'], '<c11>', 'exec'), g)
    obj = eval(r['callee'], g)
    sig = inspect.signature(obj)
    rp = insp_params(sig)
    out['rp'] = [{k: v for k, v in p.items() if not k.startswith('_')} for p in rp]
    out['ret'] = sig.return_annotation is not sig.empty
    pok, acc = oracle_acceptable(bound_defn(defn, form), call, slot)
    out['pok'], out['acc'] = pok, sorted(acc)
    # jedi side
    res = jutil.safe(lambda: buffer_script(r['src']).get_signatures(r['line'], r['col']))
    if res[0] == 'exc':
        out['exc'] = res[2]
        return out
    sigs = res[1]
    out['nsigs'] = len(sigs)
    if len(sigs) != 1:
        return out
    s = sigs[0]

    def rest():
        jp = []
        for p in s.params:
            ps = p.to_string()
            ann, dft = split_param_string(ps)
            jp.append({'name': p.name, 'kind': KINDS[p.kind.name], 'def': dft is not None,
                       'ann': ann is not None, '_dtext': dft, '_atext': ann, '_str': ps})
        idx = s.index
        return jp, (0 if idx is None else idx + 1), list(s.bracket_start), s.to_string()
    res = jutil.safe(rest)
    if res[0] == 'exc':
        out['exc'] = res[2]
        return out
    jp, out['idx'], out['bs'], out['to_string'] = res[1]
    out['jp'] = [{k: v for k, v in p.items() if not k.startswith('_')} for p in jp]
    out['pstrings'] = [p['_str'] for p in jp]
    out['bsx'] = r['bracket']
    out['mirror'] = len(jp) == len(rp) and all(same_param(a, b, g) for a, b in zip(jp, rp))
    try:
        out['triples'] = [[t[0], [] if t[1] is None else [t[1]], bool(t[2])]
                          for t in s._call_details._list_arguments()]
    except Exception:  # noqa  internal API, best effort
        out['triples'] = None
    # to_string() must compile and give the reported signature again
    g2 = dict(g)
    try:
        ts = out['to_string']
        exec('def ' + ts.replace('<lambda>', 'lam') + ': pass', g2)
        tname = ts.split('(')[0]
        tsig = inspect.signature(g2[tname])
        tp = insp_params(tsig)
        out['tp'] = [{k: v for k, v in p.items() if not k.startswith('_')} for p in tp]
        out['roundtrip'] = (len(tp) == len(jp) and all(same_param(a, b, g) for a, b in zip(jp, tp))
                            and (tsig.return_annotation is not tsig.empty) == (job.get('ret', False) and form != 'init'))
    except Exception as e:  # noqa
        out['tp'] = [{'name': 'DOES-NOT-COMPILE', 'kind': 'PK', 'def': False, 'ann': False}]
        out['roundtrip'] = False
        out['tp_error'] = '%s: %s' % (type(e).__name__, e)
    return out


def bound_defn(defn, form):
    """The parameter tokens Python binds call arguments to (self/cls removed where bound)."""
    if form in ('method', 'classmethod', 'init') and defn and defn[0]['t'] == 'param' and defn[0]['stars'] == 0:
        rest = defn[1:]
        if rest and rest[0]['t'] == '/':
            rest = rest[1:]
        return rest
    return defn


def shapes_of(ob):
    """Shape labels (python side; the same predicates as Devs in the spec)."""
    job = ob['job']
    sh = []
    if any(k['t'] == 'param' and k['stars'] == 0 and k['name'].startswith('__') for k in job['defn']):
        sh.append('dunder-param')
    if job['form'] in ('method', 'classmethod', 'init') and job['defn'] and job['defn'][0]['stars'] == 1:
        sh.append('bound-varpositional')
    slot, call = job['slot'], job['call']
    idx = ob.get('idx')
    rp = ob['rp']
    if slot['t'] == 'star' and any(c['t'] == 'kw' for c in call) and idx == 0:
        sh.append('star-after-keyword')
    vk = [i + 1 for i, p in enumerate(rp) if p['kind'] == 'VK']
    nplain = sum(1 for c in call if c['t'] == 'pos')
    if slot['t'] == 'kweq' and idx and vk and idx == vk[0] and \
            any(p['name'] == slot['s'] and p['kind'] == 'PK' for p in rp[:nplain]):
        sh.append('kw-duplicates-positional')
    return sh


def enc_params(ps):
    return [{'name': jutil.enc(p['name']), 'kind': p['kind'], 'def': p['def'], 'ann': p['ann']} for p in ps]


def sig_event(ob):
    job = ob['job']
    return {'k': 'sig', 'rp': enc_params(ob['rp']), 'jp': enc_params(ob['jp']), 'tp': enc_params(ob['tp']),
            'call': [{'t': c['t'], 'name': jutil.enc(c['name'])} for c in job['call']],
            'slot': {'t': job['slot']['t'], 's': jutil.enc(job['slot']['s'])},
            'idx': ob['idx'], 'bs': ob['bs'], 'bsx': ob['bsx'],
            'boundvp': 'bound-varpositional' in shapes_of(ob)}


def read_by_index(triples):
    """calculate_index reads key_start of a completed argument only when had_equal."""
    return [t if (i + 1 == len(triples) or t[2]) else [t[0], None, t[2]] for i, t in enumerate(triples)]


def judge(ctx, ob, design=None):
    """Verdicts on one observation.  design: the TLC case (prediction) or None."""
    job = ob['job']
    rep = {'src': ob['src'], 'pos': ob['pos'], 'job': job,
           'observed': {k: ob.get(k) for k in ('jp', 'idx', 'bs', 'to_string', 'exc', 'nsigs', 'triples')},
           'cpython': {'params': ob['rp'], 'prefix_binds': ob['pok'], 'acceptable': ob['acc']}}
    ctx.count('replayed')
    if 'exc' in ob:
        ctx.violation('crash:' + ob['exc'], 'get_signatures / Signature attribute raised', rep)
        return False
    if ob['nsigs'] != 1:
        ctx.violation('other:no-signature:%s' % job['form'],
                      '%d signatures reported inside the call parentheses' % ob['nsigs'], rep)
        return False
    sh = shapes_of(ob)
    shape = sh[0] if sh else 'other'
    ok = True
    if not ob['mirror']:
        ok = False
        ctx.violation('%s:mirror' % shape, 'reported parameters differ from inspect.signature: %s vs %s'
                      % (ob['pstrings'], ob['rp']), rep)
    if not ob['roundtrip']:
        ok = False
        ctx.violation('%s:roundtrip' % shape, 'to_string() %r does not re-parse to the reported signature (%s)'
                      % (ob['to_string'], ob.get('tp_error', ob['tp'])), rep)
    if ob['bs'] != ob['bsx']:
        ok = False
        ctx.violation('other:bracket_start', 'bracket_start %s, "(" is at %s' % (ob['bs'], ob['bsx']), rep)
    # (index counts in the reported list: comparable only when the lists have the same length)
    if len(ob['jp']) == len(ob['rp']) and not index_agrees(ob['pok'], set(ob['acc']), ob['idx']):
        ok = False
        ctx.violation('%s:index' % (sh[0] if sh else 'other:' + job['slot']['t']),
                      'index %s but Python binds the argument being typed to %s (1-based, 0 = None)'
                      % (ob['idx'], ob['acc'] or 'nothing'), rep)
    if design is not None:
        # does the model still predict the code (also where the code deviates in a named shape)?
        exp = design
        diffs = []
        if exp.get('idx') is not None and exp['idx'] != ob['idx']:
            diffs.append(('idx', exp['idx'], ob['idx']))
        if exp.get('shown') is not None and exp['shown'] != ob['jp']:
            diffs.append(('params', exp['shown'], ob['jp']))
        if exp.get('triples') is not None and ob['triples'] is not None and \
                read_by_index(exp['triples']) != read_by_index(ob['triples']):
            diffs.append(('triples', exp['triples'], ob['triples']))
        if diffs:
            ctx.drift({'src': ob['src'], 'diffs': diffs})
    return ok


# ---------------------------------------------------------------- replay of TLC cases
def case_jobs(case, seedbit):
    """One TLC case -> rendering jobs (several forms / call shapes)."""
    defn = norm_defn(case['defn'])
    call = norm_call(case['call'])
    slot = norm_slot(case['slot'])
    form = case['form']
    h = (sum(len(k['name']) * 7 + k['stars'] for k in defn) + len(call) * 3 + len(slot['s']) + seedbit)
    variants = VARIANTS
    jobs = [dict(defn=defn, form=form, call=call, slot=slot, variant=variants[h % len(variants)], ret=bool(h % 2))]
    dunder = any(k['name'].startswith('__') for k in defn)
    if form == 'func' and not dunder and case.get('mode') == 'index':
        # the same parameter list behind a bound first parameter
        f2 = ['method', 'classmethod', 'init', 'staticmethod'][h % 4]
        d2 = defn if f2 == 'staticmethod' else [tok('param', 'self' if f2 != 'classmethod' else 'cls')] + defn
        jobs.append(dict(defn=d2, form=f2, call=call, slot=slot, variant=variants[(h + 1) % len(variants)], ret=False,
                         derived=True))
    return jobs


def design_of(case, job):
    """Design prediction of the TLC case, decoded (only for the job rendered as the case itself)."""
    if job.get('derived'):
        return {'idx': case['idx'], 'shown': None, 'triples': None}
    shown = [{'name': jutil.dec(p['name']), 'kind': p['kind'], 'def': p['def'], 'ann': p['ann']}
             for p in case['shown']]
    triples = [[t['sc'], [jutil.dec(k) for k in t['ks']], t['eq']] for t in case['triples']]
    return {'idx': case['idx'] if case.get('mode') == 'index' else None, 'shown': shown, 'triples': triples}


def replay_case(arg):
    case, seedbit = arg
    obs = []
    for job in case_jobs(case, seedbit):
        ob = observe(job)
        ob['design'] = design_of(case, job)
        obs.append(ob)
    # Reference ~ reality: the TLA+ Acceptable / PrefixOK / RefParams against CPython
    ob = obs[0]
    ref_mismatch = None
    tla_ref = [{'name': jutil.dec(p['name']), 'kind': p['kind'], 'def': p['def'], 'ann': p['ann']}
               for p in case['ref']]
    dunder_in_class = False
    if tla_ref != ob['rp'] and not dunder_in_class:
        ref_mismatch = ('RefParams', tla_ref, ob['rp'])
    if case.get('mode') == 'index':
        if case['pok'] != ob['pok'] or (case['pok'] and sorted(case['acc']) != ob['acc']):
            ref_mismatch = ('Acceptable', [case['pok'], sorted(case['acc'])], [ob['pok'], ob['acc']])
    return {'case': case, 'obs': obs, 'ref_mismatch': ref_mismatch}


# ---------------------------------------------------------------- wrappers
def render_wrapper(case):
    f = norm_defn(case['defn'])
    w = norm_defn(case['wdefn'])
    gkw = sorted(jutil.dec(k) for k in case['gkw'])
    inner = ['0'] * case['gpos'] + ['%s=0' % k for k in gkw] + ['**k']
    wp = params_text(w)
    head = ['def f(%s): return 0' % params_text(f),
            'def w(%s**k): return f(%s)' % (wp + ', ' if wp else '', ', '.join(inner))]
    return '\n'.join(head) + '\n', '\n'.join(head) + '\nw('


def wrap_case(case):
    head, src = render_wrapper(case)
    lines = src.split('\n')
    out = {'case': case, 'src': src}
    res = jutil.safe(lambda: buffer_script(src).get_signatures(len(lines), len(lines[-1])))
    if res[0] == 'exc':
        out['exc'] = res[2]
        return out
    sigs = res[1]
    out['nsigs'] = len(sigs)
    if len(sigs) != 1:
        return out
    s = sigs[0]
    out['to_string'] = s.to_string()
    jp = []
    for p in s.params:
        ann, dft = split_param_string(p.to_string())
        jp.append({'name': p.name, 'kind': KINDS[p.kind.name], 'def': dft is not None, 'ann': ann is not None})
    out['jp'] = jp
    fnames = set(k['name'] for k in norm_defn(case['defn']) if k['t'] == 'param')
    given = set(jutil.dec(k) for k in case['gkw'])
    out.update(wrapper_language(head, out['to_string'], fnames, given))
    return out


def wrapper_language(head, reported, fnames, given, universe=('a', 'b', 'c', 'z')):
    """CPython: exactly the calls that bind against the reported signature run without TypeError
    (a reported **kwargs promises only names unknown to the wrapped function)."""
    g = {}
    exec(head, g)
    g2 = {}
    try:
        exec('def ' + reported + ': pass', g2)
        rsig = inspect.signature(g2['w'])
    except Exception as e:  # noqa
        return {'compile_error': repr(e)}
    disagree, live = [], False
    for npos in range(4):
        for r in range(len(universe) + 1):
            for kws in itertools.combinations(universe, r):
                kw = {k: 0 for k in kws}
                try:
                    g['w'](*[0] * npos, **kw)
                    runs = True
                except TypeError:
                    runs = False
                live = live or runs
                try:
                    ba = rsig.bind(*[0] * npos, **kw)
                    acc = True
                except TypeError:
                    acc = False
                if runs and not acc:
                    disagree.append([npos, list(kws), 'runs-but-rejected'])
                elif acc and not runs:
                    vk = [p.name for p in rsig.parameters.values() if p.kind == p.VAR_KEYWORD]
                    landing = set(ba.arguments.get(vk[0], {})) if vk else set()
                    if not (landing & (fnames | given)):
                        disagree.append([npos, list(kws), 'accepted-but-fails'])
    return {'live': live, 'disagree': disagree}


# hand-written programs around the generated space: (shape key, definitions, text typed after them)
EXTRA_WRAPPERS = [
    # another call site of the wrapper leaks into its signature (dynamic parameter search of **k)
    ('wrapper-other-call-site', 'def f(a, b): return 0\ndef w(**k): return f(**k)\nw(a=0, b=1)\n', 'w(', {'a', 'b'}),
    ('wrapper-two-levels', 'def f(a, *, b=1): return 0\ndef v(**k2): return f(**k2)\ndef w(x, **k): return v(**k)\n',
     'w(', {'a', 'b'}),
]


def extra_wrapper_case(arg):
    key, head, typed, fnames = arg
    src = head + typed
    lines = src.split('\n')
    out = {'key': key, 'src': src}
    res = jutil.safe(lambda: [s.to_string() for s in buffer_script(src).get_signatures(len(lines), len(lines[-1]))])
    if res[0] == 'exc':
        out['exc'] = res[2]
        return out
    out['sigs'] = res[1]
    if len(res[1]) == 1:
        out['to_string'] = res[1][0]
        out.update(wrapper_language(head, res[1][0], set(fnames), set()))
    return out


STAR_WRAPPERS = [
    'def f(a, b, *, c): pass\ndef w(*a, **k): return f(*a, **k)\nw(',
    'def f(a, b=1): pass\ndef w(*a): return f(*a)\nw(1, ',
    'def f(a, b, *, c): pass\ndef w(x, *a, **k): return f(x, *a, **k)\nw(',
]


# ---------------------------------------------------------------- docstrings
DOC_SHAPES = {
    'plain': ['"""Doc line.', '', '  more', '    indented', '"""'],
    'single': ["'one line'"],
    'raw': ["r'''Doc \\n raw", "   second'''"],
    'unicode': ["u'uni doc'"],
    'tabs': ['"""A', '\tb', '\t  c', '"""'],
    'escape': ["'a\\tb\\x41 \\u00e9'"],
    'blank-ends': ['"""', '', '   text', '', '"""'],
    'none': [],
    'number': ['1'],
    'fstring': ["f'f doc'"],
    'bytes': ["b'bytes doc'"],
    'concat': ["'foo' 'bar'"],
    'paren': ["('pdoc')"],
    'later': ['y = 1', "'not doc'"],
}
DOC_KNOWN = {'bytes': 'doc-bytes-literal', 'concat': 'doc-implicit-concatenation', 'paren': 'doc-parenthesized'}


def doc_case(arg):
    shape, form, defn = arg
    r = render_program(defn, form, [], {'t': 'empty', 's': ''}, 'open', doc=DOC_SHAPES[shape])
    g = {}
    exec(compile(r['head'], '<c11doc>', 'exec'), g)
    if form == 'init':
        return None
    obj = eval(r['callee'], g)
    exp = inspect.getdoc(obj) or ''
    out = {'shape': shape, 'form': form, 'src': r['src'], 'exp': exp}

    def run():
        s = buffer_script(r['src'])
        names = s.infer(r['line'], r['name_col'])
        sigs = s.get_signatures(r['line'], r['col'])
        n = names[0]
        return (len(names), n.docstring(raw=True), n.docstring(), [x.to_string() for x in n.get_signatures()],
                sigs[0].docstring(raw=True), sigs[0].docstring(), sigs[0].to_string())
    res = jutil.safe(run)
    if res[0] == 'exc':
        out['exc'] = res[2]
        return out
    out['n'], out['raw'], out['full'], out['sigs'], out['sraw'], out['sfull'], out['ssig'] = res[1]
    return out


# ---------------------------------------------------------------- random / corpus cases (code -> spec)
NAMES_BIG = ['a', 'ab', 'abc', 'b', 'ba', 'c', 'self_', 'kw', 'args']


def random_defn(rng, maxp=6, names=None, dunder=False):
    names = list(names or NAMES_BIG)
    rng.shuffle(names)
    n = rng.randint(0, min(maxp, len(names)))
    vp = rng.random() < 0.35 and n >= 1
    vk = rng.random() < 0.35 and n - vp >= 1
    r = n - vp - vk
    po = rng.choice([0, 0, 1, 2]) if r else 0
    po = min(po, r)
    ko = rng.randint(0, r - po) if rng.random() < 0.5 else 0
    pk = r - po - ko
    d = []
    it = iter(names)
    seen_default = False
    for i in range(po + pk):
        df = seen_default or rng.random() < 0.3
        seen_default = df
        nm = next(it)
        if dunder and i == 0:
            nm = '__x'
        d.append(tok('param', nm, 0, df, rng.random() < 0.3))
        if i + 1 == po:
            d.append(tok('/'))
    if vp:
        d.append(tok('param', next(it), 1, False, rng.random() < 0.2))
    elif ko:
        d.append(tok('*'))
    for i in range(ko):
        d.append(tok('param', next(it), 0, rng.random() < 0.5, rng.random() < 0.3))
    if vk:
        d.append(tok('param', next(it), 2, False, rng.random() < 0.2))
    return d


def random_call(rng, defn, maxa=5):
    pnames = [k['name'] for k in defn if k['t'] == 'param']
    pool = pnames + ['zz']
    call, used = [], set()
    kwseen = dseen = False
    for _ in range(rng.randint(0, maxa)):
        opts = ['kw', 'kw', 'dstar']
        if not kwseen and not dseen:
            opts += ['pos'] * 4
        if not dseen:
            opts += ['star']
        t = rng.choice(opts)
        if t == 'kw':
            free = [n for n in pool if n not in used]
            if not free:
                continue
            nm = rng.choice(free)
            used.add(nm)
            call.append({'t': 'kw', 'name': nm})
            kwseen = True
        else:
            call.append({'t': t, 'name': ''})
            dseen = dseen or t == 'dstar'
    st = rng.choice(['empty', 'empty', 'frag', 'frag', 'kweq', 'kweq', 'star', 'dstar'])
    if st == 'star' and dseen:
        st = 'dstar'
    s = ''
    if st == 'frag':
        base = rng.choice(pool)
        s = base[:rng.randint(1, len(base))]
        if keyword.iskeyword(s):      # "in" of "index": a keyword token is not an identifier fragment
            s = base
    elif st == 'kweq':
        free = [n for n in pool if n not in used]
        s = rng.choice(free) if free else 'yy'
    elif st in ('star', 'dstar'):
        s = rng.choice(['', 'x'])
    return call, {'t': st, 's': s}


def corpus_defns(path):
    """Parameter lists of the functions defined in a corpus file, as tokens (defaults/annotations as flags)."""
    try:
        with open(path, encoding='utf-8') as f:
            tree = ast.parse(f.read())
    except (SyntaxError, UnicodeDecodeError):
        return []
    out = []
    for node in ast.walk(tree):
        if not isinstance(node, (ast.FunctionDef, ast.AsyncFunctionDef)):
            continue
        a = node.args
        d = []
        pos = a.posonlyargs + a.args
        ndef = len(a.defaults)
        for i, arg in enumerate(pos):
            d.append(tok('param', arg.arg, 0, i >= len(pos) - ndef, arg.annotation is not None))
            if i + 1 == len(a.posonlyargs):
                d.append(tok('/'))
        if a.vararg:
            d.append(tok('param', a.vararg.arg, 1, False, a.vararg.annotation is not None))
        elif a.kwonlyargs:
            d.append(tok('*'))
        for arg, dv in zip(a.kwonlyargs, a.kw_defaults):
            d.append(tok('param', arg.arg, 0, dv is not None, arg.annotation is not None))
        if a.kwarg:
            d.append(tok('param', a.kwarg.arg, 2, False, a.kwarg.annotation is not None))
        names = [k['name'] for k in d if k['t'] == 'param']
        if 1 <= len(names) <= 8 and all(n.isascii() for n in names):
            out.append(d)
    return out


def big_case(arg):
    seed, corpus_defn = arg
    rng = random.Random(seed)
    if corpus_defn is not None:
        defn = corpus_defn
        form = 'func'
    else:
        defn = random_defn(rng, dunder=rng.random() < 0.03)
        form = rng.choice(FORMS)
    if any(k['name'].startswith('__') for k in defn):
        form = 'func'
    if form in ('method', 'classmethod', 'init'):
        defn = [tok('param', 'cls' if form == 'classmethod' else 'self')] + defn
    call, slot = random_call(rng, bound_defn(defn, form))
    job = dict(defn=defn, form=form, call=call, slot=slot,
               variant=rng.choice(VARIANTS), ret=rng.random() < 0.3)
    return observe(job)


# ---------------------------------------------------------------- main
def do_job(arg):
    """One unit of real-code work (a single forked pool serves all legs)."""
    kind, payload = arg
    if kind == 'case':
        return replay_case(payload)
    if kind == 'wrap':
        return wrap_case(payload)
    if kind == 'doc':
        return doc_case(payload)
    return big_case(payload)


CODES = {'M': 'Mirror', 'R': 'RoundTrip', 'B': 'Bracket', 'I': 'Index', 'DR': 'DocRaw', 'DF': 'DocFull',
         'sD': 'shape:dunder-param', 'sV': 'shape:bound-varpositional', 'sS': 'shape:star-after-keyword',
         'sK': 'shape:kw-duplicates-positional'}


def core_out():
    from harness import core
    d = os.path.join(core.VERIF, 'out')
    os.makedirs(d, exist_ok=True)
    return d


def validate_all(ctx, traces, label):
    """validate_traces + a second pass for traces whose verdict line was lost in TLC's output."""
    vs = validate_traces('Trace_Signature', 'Trace_Signature.cfg', traces, ctx, label)
    for attempt in range(2):
        lost = [i for i, v in enumerate(vs) if not v['accepted'] and v['why'] is None]
        if not lost:
            break
        n0 = ctx.coverage['traces_validated_against_impl']
        again = validate_traces('Trace_Signature', 'Trace_Signature.cfg', [traces[i] for i in lost], ctx,
                                label + ' (verdicts re-read)')
        ctx.coverage['traces_validated_against_impl'] = n0
        for i, v in zip(lost, again):
            vs[i] = v
    lost = [traces[i] for i, v in enumerate(vs) if not v['accepted'] and v['why'] is None]
    if lost:
        dump = os.path.join(core_out(), 'c11_lost_traces.json')
        with open(dump, 'w') as f:
            json.dump(lost, f)
        raise MachineryError('trace verdicts are not total: %d traces without verdict, dumped to %s' % (len(lost), dump))
    for v in vs:
        if v['why'] is not None:
            v['why'] = sorted(CODES.get(w, w) for w in v['why'])
    return vs


def run(ctx):
    quick = ctx.quick
    from harness import core
    ctx.coverage['repo'] = core.REPO

    # 1. TLC: Design |= Reference exhaustively in the three modes, and emission of the slices to replay,
    #    all concurrently (in wrap mode MaxArgs bounds the wrapper's own parameters)
    fast = bool(os.environ.get('VERIF_C11_FAST'))   # development knob (mutation experiments): tiny exhaustive runs
    reduced = bool(os.environ.get('VERIF_C11_REDUCED'))   # thorough on a loaded machine: 4/2 instead of 4/3
    if reduced:
        ctx.notes.append('VERIF_C11_REDUCED set: thorough tier with index exhaustive MaxParams=4 MaxArgs=2 and '
                         'without the 3/3 emission')
    if fast:
        ctx.notes.append('VERIF_C11_FAST set: exhaustive TLC runs reduced; not a full check')
    plan = [('index', 2, 1, 4, 1000), ('render', 2, 0, 2, 100), ('wrap', 1, 1, 2, 100)] if fast else \
           [('index', 3, 2, 12, 200000), ('render', 3, 0, 2, 3000), ('wrap', 2, 1, 4, 5000)] if quick else \
           [('index', 4, 2 if reduced else 3, 14, 1000000), ('render', 4, 0, 2, 30000), ('wrap', 3, 2, 6, 100000)]
    emits = [('index', 3, 2, 131, 6, 1500), ('render', 3, 0, 7, 1, 300), ('wrap', 2, 1, 17, 1, 300)] if quick else \
            [('index', 4, 2, 29, 8, 25000)] + ([] if reduced else [('index', 3, 3, 61, 8, 20000)]) + \
            [('render', 4, 0, 3, 2, 3000), ('wrap', 3, 2, 7, 6, 3000)]
    jobs, roles = [], []
    for mode, maxp, maxa, workers, floor in plan:
        jobs.append(('Design|=Reference exhaustive mode=%s MaxParams=%d MaxArgs=%d' % (mode, maxp, maxa),
                     write_cfg(ctx, 'mc_%s.cfg' % mode, mode, maxp, maxa), workers))
        roles.append(('mc', mode, floor))
    cache = os.environ.get('VERIF_C11_CASES')       # development knob: reuse emitted cases (they do not depend on the repo)
    cached = None
    if cache and os.path.exists(cache):
        with open(cache) as f:
            cached = json.load(f)
        ctx.notes.append('VERIF_C11_CASES set: emitted cases loaded from a previous run; not a full check')
    for n, (mode, maxp, maxa, mod, parts, floor) in enumerate(emits):
        for part in range(parts if cached is None else 0):
            cfg = write_cfg(ctx, 'emit_%d_%d.cfg' % (n, part), mode, maxp, maxa, mod, ctx.seed % mod, True, parts, part)
            jobs.append(('case emission mode=%s MaxParams=%d MaxArgs=%d slice %d mod %d part %d/%d'
                         % (mode, maxp, maxa, ctx.seed % mod, mod, part, parts), cfg, 1))
            roles.append(('emit', n, None))
    if not quick and not fast:
        # beyond the exhaustive bounds: random walks up to the quantifier's 6 parameters x 5 arguments
        jobs.append(('Design|=Reference simulation mode=index MaxParams=6 MaxArgs=5',
                     write_cfg(ctx, 'sim_index.cfg', 'index', 6, 5), 4,
                     dict(simulate='num=6000', depth=24, seed=ctx.seed + 1)))
        roles.append(('sim', 'index', 1000))
    ctx.log('TLC: %d runs (exhaustive %s; emission %s)' % (len(jobs), [p[:3] for p in plan], [e[:5] for e in emits]))
    results = tlc_batch(ctx, jobs)
    emitted = [[] for _ in emits]
    seen = set()
    for (role, x, floor), res in zip(roles, results):
        if role in ('mc', 'sim'):
            if res.violated:
                raise MachineryError('Signature.tla mode=%s: design violates reference beyond the named deviations '
                                     '(%s); replay the state on the real code, then either name the deviation '
                                     '(known finding) or correct the model:\n%s' % (x, res.violated, res.trace[-1:]))
            if res.distinct < floor:
                raise MachineryError('vacuity: mode=%s only %d states' % (x, res.distinct))
            ctx.log('  %s mode=%s: %d states, %.0fs' % ('exhaustive' if role == 'mc' else 'simulation', x, res.distinct, res.wall))
        else:
            for c in cases(res):
                k = json.dumps(c, sort_keys=True)
                if k not in seen:
                    seen.add(k)
                    c['mode'] = emits[x][0]
                    emitted[x].append(c)
    ctx.coverage['exhaustive'] = True
    if cached is not None:
        emitted = cached
    elif cache:
        with open(cache, 'w') as f:
            json.dump(emitted, f)
    for (mode, maxp, maxa, mod, parts, floor), cs in zip(emits, emitted):
        ctx.log('  emitted mode=%s %d/%d: %d cases' % (mode, maxp, maxa, len(cs)))
        if len(cs) < floor:
            raise MachineryError('too few cases emitted in mode %s: %d' % (mode, len(cs)))

    # 2. one pool drives the real code for all legs
    work = []
    for (mode, *_), cs in zip(emits, emitted):
        work += [('wrap' if mode == 'wrap' else 'case', c if mode == 'wrap' else (c, ctx.seed)) for c in cs]
    ddefs = [[tok('param', 'a'), tok('param', 'b', 0, True)], [],
             [tok('param', 'a', 0, False, True), tok('*'), tok('param', 'c', 0, True, True), tok('param', 'kw', 2)]]
    for shape in DOC_SHAPES:
        for form in ('func', 'method', 'classmethod', 'staticmethod'):
            for d in ddefs:
                work.append(('doc', (shape, form, d if form in ('func', 'staticmethod') else [tok('param', 'self')] + d)))
    cdefs = []
    for f in jutil.corpus_files(limit=10 if quick else 60, rng=ctx.rng):
        cdefs += corpus_defns(f)
    ctx.rng.shuffle(cdefs)
    cdefs = cdefs[:200 if quick else 2500]
    work += [('big', (ctx.seed * 1000003 + i, None)) for i in range(400 if quick else 6000)]
    work += [('big', (ctx.seed * 7919 + i, d)) for i, d in enumerate(cdefs)]
    ctx.log('driving the real code: %d jobs' % len(work))
    done = jutil.pmap(do_job, work)
    jutil.check_worker_errors(done)

    traces, trace_obs, nobs = [], [], 0
    ref_bad, verdicts = [], {}
    for (kind, _), r in zip(work, done):
        if kind == 'case':
            # spec -> code, index and render mode
            mode = r['case']['mode']
            if r['ref_mismatch']:
                ref_bad.append((r['ref_mismatch'], r['obs'][0]['src']))
            for ob in r['obs']:
                ok = judge(ctx, ob, ob['design'])
                ctx.count('replayed_' + mode)
                if mode == 'index':
                    v = r['case']['verdict']
                    verdicts[v] = verdicts.get(v, 0) + 1
                nobs += 1
                if 'jp' in ob and 'tp' in ob and (mode != 'index' or nobs % (4 if quick else 3) == 0):
                    traces.append([sig_event(ob)])
                    trace_obs.append(ob)
                if ok:
                    ctx.sample({'source': ob['src'], 'cursor': ob['pos'], 'reported': ob.get('to_string'),
                                'index_1based': ob.get('idx'), 'cpython_acceptable': ob['acc'],
                                'design_index': ob['design'].get('idx')}, limit=4)
        elif kind == 'wrap':
            judge_wrapper(ctx, r)
        elif kind == 'doc':
            if r is None:
                continue
            ctx.count('doc_cases')
            key0 = DOC_KNOWN.get(r['shape'], 'other:doc-' + r['shape'])
            if 'exc' in r:
                ctx.violation(key0 + ':crash:' + r['exc'].split('@')[0], 'docstring() raised: %s' % r['exc'], r)
                continue
            ev = []
            for raw, full, sg, cf in ((r['raw'], r['full'], '\n'.join(r['sigs']), True),
                                      (r['sraw'], r['sfull'], r['ssig'], False)):
                ev.append({'k': 'doc', 'raw': jutil.enc(raw), 'exp': jutil.enc(r['exp']), 'full': jutil.enc(full),
                           'sig': jutil.enc(sg), 'cf': cf})
            traces.append(ev)
            trace_obs.append(r)
        else:
            ctx.count('random_or_corpus_cases')
            judge(ctx, r)
            if 'jp' in r and 'tp' in r:
                traces.append([sig_event(r)])
                trace_obs.append(r)
    ctx.coverage['design_verdicts_of_replayed_cases'] = verdicts
    if ref_bad:
        raise MachineryError('Reference disagrees with CPython on %d emitted cases (my reading of Python is '
                             'wrong), e.g. %s' % (len(ref_bad), ref_bad[:2]))
    ctx.coverage['reference_validated_against_cpython'] = True
    blocked = 0
    for src in STAR_WRAPPERS:
        lines = src.split('\n')
        r = jutil.safe(lambda: [s.to_string() for s in buffer_script(src).get_signatures(len(lines), len(lines[-1]))])
        if r[0] == 'exc' and type(r[1]).__name__ in ('RecursionError', 'AssertionError'):
            blocked += 1
    ctx.coverage['star_forwarding_wrappers_blocked_by_absent_typeshed'] = '%d/%d' % (blocked, len(STAR_WRAPPERS))
    for e in EXTRA_WRAPPERS:
        r = extra_wrapper_case(e)
        ctx.count('extra_wrapper_cases')
        if 'exc' in r:
            ctx.violation('crash:' + r['exc'], 'get_signatures raised on a hand-written wrapper', r)
        elif len(r['sigs']) != 1 or 'compile_error' in r:
            ctx.violation('%s:no-signature' % r['key'], 'no usable signature: %s' % r['sigs'], r)
        elif r['disagree']:
            ctx.violation('%s:language' % r['key'], 'calls that bind against the reported signature %s do not '
                          'coincide with the calls that run: %s' % (r['to_string'], r['disagree'][:3]), r)

    # 3. TLC judges every recorded observation against the Reference (code -> spec)
    ctx.log('validating %d traces' % len(traces))
    vs = validate_all(ctx, traces, 'Trace_Signature')
    for v, t, ob in zip(vs, traces, trace_obs):
        if v['accepted']:
            continue
        why = v['why']
        clauses = [w for w in why if not w.startswith('shape:')]
        shapes = [w[6:] for w in why if w.startswith('shape:')]
        if t[0]['k'] == 'doc':
            shape = DOC_KNOWN.get(ob['shape'], 'other:doc-' + ob['shape'])
            ctx.violation('%s:%s' % (shape, ','.join(clauses)), 'docstring clauses %s fail: raw=%r inspect.getdoc=%r '
                          'docstring()=%r' % (clauses, ob['raw'], ob['exp'], ob['full']), ob)
            continue
        py_ok = ob['mirror'] and ob['roundtrip'] and ob['bs'] == ob['bsx'] and \
            index_agrees(ob['pok'], set(ob['acc']), ob['idx'])
        if py_ok:
            raise MachineryError('TLC Reference rejects (%s) what CPython accepts: %s' % (why, ob['src']))
        for c in clauses:
            ctx.violation('%s:%s' % (shapes[0] if shapes else 'other', c.lower()),
                          'Reference clause %s fails on a recorded observation' % c,
                          {'src': ob['src'], 'pos': ob['pos'], 'event_why': why, 'observed': ob.get('jp'),
                           'idx': ob.get('idx'), 'cpython': ob['rp'], 'acceptable': ob['acc']})

    ctx.assumptions += [
        'a completed *expr contributes an unknown number of positionals, a completed **expr no known keyword; '
        'the index is acceptable if some such world binds the argument being typed to it; None only if no world does',
        'call prefixes that no world can bind (TypeError before the slot) are outside the property',
        'a bare fragment may become a positional argument or a keyword starting with the fragment',
        'wrapper language: a reported **kwargs promises only names unknown to the wrapped function',
        'default / annotation expressions are literals and builtin names; compared by value with inspect',
        '*args forwarding wrappers cannot be analysed in this tree (typeshed absent) and are not modelled']

    # binding self-test: corrupted records must be rejected
    # (baselines are traces TLC accepted; on a broken tree there may be none of a kind)
    good = [t for t, v, ob in zip(traces, vs, trace_obs) if v['accepted'] and t[0]['k'] == 'sig'
            and t[0]['idx'] > 0 and len(t[0]['jp']) >= 2 and ob.get('pok')]
    gdoc = [t for t, v in zip(traces, vs) if v['accepted'] and t[0]['k'] == 'doc' and t[0]['raw']]
    if not good or not gdoc:
        if not ctx.violations:
            raise MachineryError('no trace suitable for the binding self-test')
        ctx.notes.append('binding self-test skipped: no accepted trace to corrupt (violations present)')
        return None
    b1 = copy.deepcopy(good[0])
    b1[0]['idx'] = len(b1[0]['rp']) + 3
    b2 = copy.deepcopy(good[0])
    b2[0]['jp'][0]['kind'] = 'KO' if b2[0]['jp'][0]['kind'] != 'KO' else 'PK'
    b3 = copy.deepcopy(good[0])
    b3[0]['bs'] = [b3[0]['bs'][0], b3[0]['bs'][1] + 1]
    b4 = copy.deepcopy(gdoc[0])
    b4[0]['raw'] = b4[0]['raw'][:-1]
    n0 = ctx.coverage['traces_validated_against_impl']
    bv = validate_all(ctx, [b1, b2, b3, b4, good[0]], 'binding self-test')
    ctx.coverage['traces_validated_against_impl'] = n0
    if any(v['accepted'] for v in bv[:4]) or not bv[4]['accepted']:
        raise MachineryError('binding self-test failed: %s' % bv)
    ctx.coverage['binding_selftest'] = 'corrupted index/kind/bracket/doc records rejected: %s' % [v['why'] for v in bv[:4]]

    return None


def judge_wrapper(ctx, r):
    ctx.count('replayed_wrap')
    case = r['case']
    rep = {'src': r['src'], 'observed': {k: r.get(k) for k in ('to_string', 'jp', 'exc', 'disagree')},
           'design': case['reported']}
    if 'exc' in r:
        ctx.violation('crash:' + r['exc'], 'get_signatures raised on a **kwargs wrapper', rep)
        return
    if r.get('nsigs') != 1:
        ctx.violation('other:wrapper-no-signature', 'no signature for the wrapper', rep)
        return
    f = norm_defn(case['defn'])
    if 'compile_error' in r:
        own = set(k['name'] for k in norm_defn(case['wdefn']) if k['t'] == 'param')
        key = 'wrapper-varkw-named-like-own:roundtrip' if any(k['stars'] == 2 and k['name'] in own for k in f) \
            else 'other:wrapper-roundtrip'
        ctx.violation(key, 'to_string() %r of the wrapper does not compile: %s' % (r['to_string'], r['compile_error']), rep)
        return
    shown = [{'name': jutil.dec(p['name']), 'kind': p['kind'], 'def': p['def'], 'ann': p['ann']}
             for p in case['reported']]
    if bool(case['live']) != bool(r['live']) or \
            (case['live'] and bool(case['disagree']) != bool(r['disagree']) and shown == r['jp']):
        raise MachineryError('wrapper Reference disagrees with CPython: %s' % rep)
    if r['live'] and r['disagree']:
        gk = set(jutil.dec(k) for k in case['gkw'])
        key = 'wrapper-varkw-named-like-given:language' if any(k['stars'] == 2 and k['name'] in gk for k in f) \
            else 'other:wrapper-language'
        ctx.violation(key, 'calls that bind against the reported signature %s do not coincide with the calls '
                      'that run: %s' % (r['to_string'], r['disagree'][:3]), rep)
    elif shown != r['jp']:
        ctx.drift({'src': r['src'], 'design': shown, 'code': r['jp']})
    ctx.sample({'source': r['src'], 'reported': r['to_string'], 'language_disagreements': r['disagree']}, limit=6)
