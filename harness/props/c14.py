"""C14 -- a crash of the helper process is contained and recovered from.

spec/Helper.tla (one action per step of the RPC code; faults Crash / CrashWhileReplying),
checked exhaustively by TLC; what-if configurations show the invariants are sensitive;
spec->code: (a) the property's own quantifier -- every request index k x crash phase x up to 3
crashes -- is executed against the real helper with fault proxies, (b) TLC simulation behaviours are
replayed macro step by macro step and the projection of the real objects compared with the model
state; code->spec: the JEDI_VERIF hook traces of all those runs (parent + helper side) are validated
by Trace_Helper.tla, which evaluates every invariant in every state.
"""
import json
import os
import subprocess
import sys

from harness.core import MachineryError, PY, VERIF, REPO
from harness.tlc import run_tlc, validate_traces, parse_sim_file

META = dict(
    spec='Helper.tla, Trace_Helper.tla',
    text='Helper.tla models the parent/helper RPC at the grain of the code (GetSubprocess, NewISS, run/drain, '
         '_send check/dump/load, Listener run, __del__/deletion queue, _kill/cleanup) with crash faults in every '
         'phase. TLC checks exhaustively (3 scripts, 3 calls, 2 crashes, address reuse) AtMostOnePerCrash, '
         'OnlyInternalError, NoHang, Reaped, StatesReleased, DeleteNeverFails, recovery; what-if configs (fix '
         'reverted) must fail. The real helper is then crashed at every request index x phase (before send, '
         'after send, truncated reply at several cut points, helper raises) x up to 3 crashes, TLC simulation '
         'behaviours are replayed step by step against the real objects, and all hook traces of those runs are '
         'validated by TLC against the spec with every invariant evaluated at every step.',
    note='Faults are injected by proxying the helper pipes and SIGKILL/SIGSTOP (no change to /repo); trusts '
         'the JEDI_VERIF hooks to sit at the linearization points; one Environment per run; queries are issued '
         'on fresh Scripts (the property speaks about later Scripts).',
    technique='TLA+ state machine model-checked with TLC; fault-schedule enumeration replayed on the real '
              'helper; TLC simulation behaviours replayed (spec->code); hook traces validated by TLC (code->spec)',
    design_ref='5/C14')

CFG = '''INIT Init
NEXT Next
CONSTANTS
  MaxScripts = %(scripts)d
  MaxCalls = %(calls)d
  MaxCrashes = %(crashes)d
  MaxRaises = %(raises)d
  Addrs = {%(addrs)s}
  TruncIsEOF = %(trunc)s
%(props)s
CHECK_DEADLOCK FALSE
'''
SAFETY = ['TypeOK', 'OnlyInternalError_ExceptHandshake', 'AtMostOnePerCrash', 'FailureMeansDetected', 'NoHang',
          'Reaped', 'NoUnnoticedAfterFailure', 'StatesReleased', 'DeleteNeverFails', 'QueueNoDup']


def cfg(ctx, name, invs=SAFETY, props=('BoundToUncrashedAtCreation',), spec=False, extra='', **kw):
    d = dict(scripts=3, calls=3, crashes=2, raises=1, addrs='1, 2', trunc='TRUE')
    d.update(kw)
    lines = ['INVARIANT %s' % i for i in invs] + ['PROPERTY %s' % p for p in props]
    d['props'] = '\n'.join(lines) + '\n' + extra
    txt = CFG % d
    if spec:
        txt = txt.replace('INIT Init\nNEXT Next\n', 'SPECIFICATION Spec\n')
    p = os.path.join(ctx.tmp, name)
    with open(p, 'w') as f:
        f.write(txt)
    return p


# ---------------------------------------------------------------- workers
def run_workers(ctx, jobs, nproc=12, label='jobs'):
    """Distribute jobs over fresh worker processes (hooks on); returns results in job order."""
    if not jobs:
        return []
    nproc = min(nproc, len(jobs))
    d = ctx.sub('w_' + label)
    chunks = [jobs[i::nproc] for i in range(nproc)]
    procs = []
    env = dict(os.environ)
    env['VERIF_REPO'] = REPO
    for i, ch in enumerate(chunks):
        jp, op = os.path.join(d, 'j%d.json' % i), os.path.join(d, 'o%d.json' % i)
        with open(jp, 'w') as f:
            json.dump(ch, f)
        procs.append((subprocess.Popen([PY, os.path.join(VERIF, 'harness', 'c14_worker.py'), jp, op], env=env,
                                       stdout=subprocess.PIPE, stderr=subprocess.STDOUT), op, len(ch)))
    out = [None] * len(jobs)
    for i, (p, op, n) in enumerate(procs):
        try:
            so, _ = p.communicate(timeout=3000)
        except subprocess.TimeoutExpired:
            p.kill()
            raise MachineryError('c14 worker timed out')
        if p.returncode != 0 or not os.path.exists(op):
            raise MachineryError('c14 worker failed rc=%s: %s' % (p.returncode, so.decode()[-2000:]))
        with open(op) as f:
            res = json.load(f)
        for j, r in enumerate(res):
            if '_worker_error' in r:
                raise MachineryError('c14 worker job error: ' + r['_worker_error'])
            out[i + j * nproc] = r
    return out


# ---------------------------------------------------------------- trace normalisation
def normalise(raw):
    """Hook events (parent + helpers) -> action-level events of Trace_Helper.tla.

    Deterministic merging only: helper events of the i-th request of a process are placed after the
    i-th Dumped of that process; a Fault('after') is placed after the Dumped it belongs to (the kill
    happens after the request was flushed); BrokenPipe/EOF + Kill + Cleanup become one failed
    dump/load event carrying which of Kill/Cleanup were seen; python ids become small integers.
    """
    parent, helpers = raw
    parent = sorted(parent, key=lambda e: e['seq'])
    subidx, hpid2sub, addr = {}, {}, {}
    chunks = {}
    for pid, evs in helpers.items():
        evs = sorted(evs, key=lambda e: e['seq'])
        cs, cur = [], None
        for e in evs:
            if e['ev'] == 'HRecv':
                cur = {'done': False}
                cs.append(cur)
            elif e['ev'] == 'HReply' and cur is not None:
                cur.update(done=True, exc=bool(e['is_exception']), nstates=e['nstates'])
        chunks[int(pid)] = cs
    sub2hpid, dumped_n = {}, {}

    def A(x):
        if x not in addr:
            addr[x] = len(addr) + 1
        return addr[x]
    out = []
    pending_after = None
    i = 0
    n = len(parent)
    pending_spawn = False
    while i < n:
        e = parent[i]
        ev = e['ev']
        i += 1
        if ev == 'GetSubprocess':
            if e['reuse']:
                out.append({'ev': 'GetSubReuse', 'sub': subidx.get(e['sub'], 0)})
            else:
                pending_spawn = True
        elif ev == 'Spawn':
            hpid2sub[e['hpid']] = e['sub']
            sub2hpid[e['sub']] = e['hpid']
        elif ev == 'SendBegin':
            if pending_spawn:
                subidx[e['sub']] = len(subidx) + 1
                out.append({'ev': 'GetSubSpawn', 'sub': subidx[e['sub']]})
                pending_spawn = False
            elif e['isid'] is None:
                out.append({'ev': 'PlainCall'})
            elif e['fn'] is not None:
                out.append({'ev': 'DrainDone'})
            out.append({'ev': 'SendBegin', 'crashed': bool(e['crashed'])})
        elif ev == 'NewISS':
            out.append({'ev': 'NewISS', 'addr': A(e['isid']), 'sub': subidx.get(e['sub'], 0)})
        elif ev == 'Call':
            out.append({'ev': 'Call', 'addr': A(e['isid']), 'raises': e['fn'] == '_test_raise_error'})
        elif ev == 'DrainPop':
            out.append({'ev': 'DrainPop', 'addr': A(e['isid'])})
        elif ev == 'Dumped':
            out.append({'ev': 'Dumped'})
            hp = sub2hpid.get(e['sub'])
            k = dumped_n.get(hp, 0)
            dumped_n[hp] = k + 1
            cs = chunks.get(hp, [])
            if pending_after is not None:
                out.append(pending_after)
                pending_after = None
            elif k < len(cs) and cs[k]['done']:
                out.append({'ev': 'HelperRun', 'exc': cs[k]['exc'], 'nstates': cs[k]['nstates']})
        elif ev == 'Fault':
            f = {'ev': 'Fault', 'phase': e['phase'], 'sub': subidx.get(hpid2sub.get(e['hpid']), 0)}
            if e['phase'] == 'after':
                pending_after = f
            else:
                out.append(f)
        elif ev in ('BrokenPipe', 'EOF'):
            killed = i < n and parent[i]['ev'] == 'Kill'
            if killed:
                i += 1
            cleaned = i < n and parent[i]['ev'] == 'Cleanup'
            if cleaned:
                i += 1
            out.append({'ev': 'DumpFailed' if ev == 'BrokenPipe' else 'LoadFailed', 'killed': killed, 'cleaned': cleaned})
        elif ev == 'Loaded':
            out.append({'ev': 'Loaded', 'exc': bool(e['is_exception'])})
        elif ev == 'Del':
            enq = i < n and parent[i]['ev'] == 'Enqueue' and parent[i]['isid'] == e['isid']
            if enq:
                i += 1
            out.append({'ev': 'Del', 'addr': A(e['isid']), 'used': bool(e['used']), 'crashed': bool(e['crashed']),
                        'enq': enq})
        elif ev == 'Cleanup':
            out.append({'ev': 'Cleanup', 'sub': subidx.get(hpid2sub.get(e['hpid']), 0)})
        elif ev == 'Kill':
            out.append({'ev': 'StrayKill'})     # a Kill outside a failing dump/load: no spec action
        elif ev == 'QueryEnd':
            o = e['outcome']
            out.append({'ev': 'QueryEnd', 'outcome': o})
        elif ev == 'Enqueue':
            out.append({'ev': 'StrayEnqueue'})
    # make every record carry every field TLC may look at
    full = []
    for e in out:
        r = {'ev': e['ev'], 'sub': e.get('sub', 0), 'addr': e.get('addr', 0), 'raises': e.get('raises', False),
             'crashed': e.get('crashed', False), 'killed': e.get('killed', False), 'cleaned': e.get('cleaned', False),
             'exc': e.get('exc', False), 'nstates': e.get('nstates', 0), 'used': e.get('used', False),
             'enq': e.get('enq', False), 'phase': e.get('phase', ''), 'outcome': e.get('outcome', '')}
        full.append(r)
    return full


TRACE_CFG = '''INIT TInit
NEXT TNext
CONSTANTS
  MaxScripts = 260
  MaxCalls = 1000000
  MaxCrashes = 6
  MaxRaises = 1000
  Addrs = {1, 2, 3, 4, 5, 6, 7, 8, 9, 10, 11, 12, 13, 14, 15, 16, 17, 18, 19, 20, 21, 22, 23, 24, 25, 26, 27, 28, 29, 30, 31, 32, 33, 34, 35, 36, 37, 38, 39, 40, 41, 42, 43, 44, 45, 46, 47, 48, 49, 50, 51, 52, 53, 54, 55, 56, 57, 58, 59, 60, 61, 62, 63, 64, 65, 66, 67, 68, 69, 70, 71, 72, 73, 74, 75, 76, 77, 78, 79, 80, 81, 82, 83, 84, 85, 86, 87, 88, 89, 90, 91, 92, 93, 94, 95, 96, 97, 98, 99, 100, 101, 102, 103, 104, 105, 106, 107, 108, 109, 110, 111, 112, 113, 114, 115, 116, 117, 118, 119, 120, 121, 122, 123, 124, 125, 126, 127, 128, 129, 130, 131, 132, 133, 134, 135, 136, 137, 138, 139, 140, 141, 142, 143, 144, 145, 146, 147, 148, 149, 150, 151, 152, 153, 154, 155, 156, 157, 158, 159, 160, 161, 162, 163, 164, 165, 166, 167, 168, 169, 170, 171, 172, 173, 174, 175, 176, 177, 178, 179, 180, 181, 182, 183, 184, 185, 186, 187, 188, 189, 190, 191, 192, 193, 194, 195, 196, 197, 198, 199, 200, 201, 202, 203, 204, 205, 206, 207, 208, 209, 210, 211, 212, 213, 214, 215, 216, 217, 218, 219, 220, 221, 222, 223, 224, 225, 226, 227, 228, 229, 230, 231, 232, 233, 234, 235, 236, 237, 238, 239, 240, 241, 242, 243, 244, 245, 246, 247, 248, 249, 250, 251, 252, 253, 254, 255, 256, 257, 258, 259, 260, 261, 262, 263, 264, 265, 266, 267, 268, 269, 270, 271, 272, 273, 274, 275, 276, 277, 278, 279, 280, 281, 282, 283, 284, 285, 286, 287, 288, 289, 290, 291, 292, 293, 294, 295, 296, 297, 298, 299, 300, 301, 302, 303, 304, 305, 306, 307, 308, 309, 310, 311, 312, 313, 314, 315, 316, 317, 318, 319, 320, 321, 322, 323, 324, 325, 326, 327, 328, 329, 330, 331, 332, 333, 334, 335, 336, 337, 338, 339, 340, 341, 342, 343, 344, 345, 346, 347, 348, 349, 350, 351, 352, 353, 354, 355, 356, 357, 358, 359, 360, 361, 362, 363, 364, 365, 366, 367, 368, 369, 370, 371, 372, 373, 374, 375, 376, 377, 378, 379, 380, 381, 382, 383, 384, 385, 386, 387, 388, 389, 390, 391, 392, 393, 394, 395, 396, 397, 398, 399, 400, 401, 402, 403, 404, 405, 406, 407, 408, 409, 410, 411, 412, 413, 414, 415, 416, 417, 418, 419, 420, 421, 422, 423, 424, 425, 426, 427, 428, 429, 430, 431, 432, 433, 434, 435, 436, 437, 438, 439, 440, 441, 442, 443, 444, 445, 446, 447, 448, 449, 450, 451, 452, 453, 454, 455, 456, 457, 458, 459, 460, 461, 462, 463, 464, 465, 466, 467, 468, 469, 470, 471, 472, 473, 474, 475, 476, 477, 478, 479, 480, 481, 482, 483, 484, 485, 486, 487, 488, 489, 490, 491, 492, 493, 494, 495, 496, 497, 498, 499, 500, 501, 502, 503, 504, 505, 506, 507, 508, 509, 510, 511, 512, 513, 514, 515, 516, 517, 518, 519, 520, 521, 522, 523, 524, 525, 526, 527, 528, 529, 530, 531, 532, 533, 534, 535, 536, 537, 538, 539, 540, 541, 542, 543, 544, 545, 546, 547, 548, 549, 550, 551, 552, 553, 554, 555, 556, 557, 558, 559, 560, 561, 562, 563, 564, 565, 566, 567, 568, 569, 570, 571, 572, 573, 574, 575, 576, 577, 578, 579, 580, 581, 582, 583, 584, 585, 586, 587, 588, 589, 590, 591, 592, 593, 594, 595, 596, 597, 598, 599, 600, 601, 602, 603, 604, 605, 606, 607, 608, 609, 610, 611, 612, 613, 614, 615, 616, 617, 618, 619, 620, 621, 622, 623, 624, 625, 626, 627, 628, 629, 630, 631, 632, 633, 634, 635, 636, 637, 638, 639, 640, 641, 642, 643, 644, 645, 646, 647, 648, 649, 650, 651, 652, 653, 654, 655, 656, 657, 658, 659, 660, 661, 662, 663, 664, 665, 666, 667, 668, 669, 670, 671, 672, 673, 674, 675, 676, 677, 678, 679, 680, 681, 682, 683, 684, 685, 686, 687, 688, 689, 690, 691, 692, 693, 694, 695, 696, 697, 698, 699, 700}
  TruncIsEOF = TRUE
CONSTRAINT Verdict
CHECK_DEADLOCK FALSE
'''


def validate(ctx, raws, label):
    traces = [normalise(r) for r in raws]
    traces = [t for t in traces if t]
    p = os.path.join(ctx.tmp, 'trace_helper.cfg')
    with open(p, 'w') as f:
        f.write(TRACE_CFG)
    vs = validate_traces('Trace_Helper', p, traces, ctx, label, chunk=400, timeout=3000)
    return traces, vs


# ---------------------------------------------------------------- campaign
PHASES_Q = [['before'], ['after'], ['trunc', 0.5]]
PHASES_T = [['before'], ['after'], ['trunc', 0.02], ['trunc', 0.5], ['trunc', 0.98]]


def judge_campaign(ctx, r, baseline):
    job = r['job']
    fired = len(r['faults'])
    handshake = set()
    # a fault hit the handshake iff the failing query raised InvalidPythonEnvironment: the
    # handshake is the first request of each helper
    fails = [o for o in r['outs'] if o['outcome'] != 'ok']
    desc = {'scenario': job['scenario'], 'plan': job['plan'], 'outcomes': [o['outcome'] for o in r['outs']],
            'faults_fired': r['faults']}
    for o in r['outs']:
        oc = o['outcome']
        if oc == 'ok':
            if o['answer'] != baseline[job['scenario']]:
                ctx.violation('answers-differ', 'a Script after a helper crash answers differently from an '
                              'undisturbed run', desc)
        elif oc == 'HANG':
            ctx.violation('hang', 'query did not return within the watchdog', desc)
        elif oc == 'InternalError':
            pass
        elif oc == 'InvalidPythonEnvironment':
            ctx.violation('handshake-crash->InvalidPythonEnvironment',
                          'helper died during the _get_info handshake of a (re)spawn: the query fails with '
                          'InvalidPythonEnvironment instead of InternalError', desc)
        else:
            ctx.violation('wrong-exception:%s' % oc, 'a helper crash surfaced as %s, not InternalError' % oc, desc)
    if len(fails) > fired:
        ctx.violation('more-failures-than-crashes', '%d helper deaths made %d queries fail' % (fired, len(fails)), desc)
    if r['zombies'] or r['zombies_after_release']:
        ctx.violation('zombie', 'dead helper not reaped', desc)
    if r['live_children'] > 1 or r['children_after_release'] > 0:
        ctx.violation('leaked-helper', 'helper processes left behind: %s live, %s after release'
                      % (r['live_children'], r['children_after_release']), desc)
    if r['fds_after_release'] > r['fds0'] or r['fds_end'] > r['fds0'] + 3:
        ctx.violation('leaked-pipes', 'open fds grew: start %d, end %d, after release %d'
                      % (r['fds0'], r['fds_end'], r['fds_after_release']), desc)
    return desc


# ---------------------------------------------------------------- TLC behaviours -> macro steps
def macro_steps(beh):
    """Project a simulated behaviour of Helper.tla onto the steps the harness controls."""
    steps = []
    cur = None          # macro in progress
    dumps = 0
    prev = None
    for act, st in beh:
        if act == 'Init':
            prev = st
            continue
        if act in ('GetSubprocess_Reuse', 'GetSubprocess_Spawn'):
            cur = {'op': 'get', 'faults': [], 'spawn': act.endswith('Spawn')}
            dumps = 0
        elif act == 'NewISS':
            cur['op'] = 'new'
            cur['k'] = st['nscr']
        elif act == 'PlainCall':
            cur['op'] = 'plain'
        elif act == 'BeginCall':
            cur = {'op': 'call', 'k': st['cur']['script'], 'raises': st['cur']['raises'], 'faults': []}
            dumps = 0
        elif act == 'Send_Dump':
            if st['pc'] == 'wait':
                dumps += 1
        elif act in ('Crash', 'CrashWhileReplying'):
            s = [i + 1 for i, (a, b) in enumerate(zip(prev['sub'], st['sub'])) if a['alive'] and not b['alive']][0]
            if cur is None or prev['pc'] == 'idle':
                steps.append({'op': 'kill', 's': s, 'expect': project(st)})
            elif act == 'CrashWhileReplying':
                cur['faults'].append({'n': dumps - 1, 'fault': ['trunc', 0.5]})
            elif prev['pc'] == 'wait' and prev['wire'][s - 1] == 'req':
                cur['faults'].append({'n': dumps - 1, 'fault': ['after']})
            elif prev['pc'] == 'wait':
                cur['faults'].append({'n': dumps, 'fault': ['before'], 'late': True})
            else:
                cur['faults'].append({'n': dumps, 'fault': ['before']})
        elif act == 'DropScript':
            k = [i + 1 for i, (a, b) in enumerate(zip(prev['scr'], st['scr'])) if a['st'] == 'live' and b['st'] == 'dead'][0]
            steps.append({'op': 'drop', 'k': k, 'expect': project(st)})
        if cur is not None and st['pc'] == 'idle' and st['got'] == 0 and act not in ('DropScript',):
            if cur['op'] == 'get':
                cur['op'] = 'new'       # handshake failed: get_inference_state_subprocess raises
                cur['k'] = 0
            cur['expect'] = project(st)
            steps.append(cur)
            cur = None
        prev = st
    return steps


def project(st):
    return {'last': st['last'], 'envsub': st['envsub'], 'fails': st['fails'],
            'subs': {i + 1: {'crashed': s['crashed'], 'queue': s['queue'], 'cleaned': s['cleaned'], 'alive': s['alive']}
                     for i, s in enumerate(st['sub']) if s['exists']},
            'scr': {i + 1: {'addr': k['addr'], 'st': k['st']} for i, k in enumerate(st['scr']) if k['st'] != 'none'}}


SIM_AC = '''
\\* only the points at which the harness can act: a destructor runs at idle, the value returned by
\\* _get_subprocess is used at once, each script gets a fresh address
'''


def sim_behaviours(ctx, n, depth, seed):
    p = cfg(ctx, 'sim.cfg', invs=['AtMostOnePerCrash'], props=(), scripts=5, calls=6, crashes=3, raises=1,
            addrs='1, 2, 3, 4, 5', extra='ACTION_CONSTRAINT SimControllable\n')
    d = ctx.sub('sim')
    res = run_tlc('Helper', p, workers=1, simulate='file=%s/tr,num=%d' % (d, n), depth=depth, seed=seed, timeout=600)
    if res.violated:
        raise MachineryError('simulation found invariant violation %s' % res.violated)
    ctx.add_tlc(res, 'simulation num=%d depth=%d' % (n, depth))
    behs = []
    for fn in sorted(os.listdir(d)):
        behs.append(parse_sim_file(os.path.join(d, fn)))
    return behs


def judge_sim(ctx, steps, r, idx):
    mism = []
    for st, ob in zip(steps, r['obs']):
        ex = st['expect']
        got = 'RemoteExc' if ob['out'] == 'ValueError' else ob['out']
        if st['op'] == 'new':
            want = 'ok' if st.get('k', 0) else ex['last']     # `last` is only written when a query finishes
        else:
            want = ex['last']
        if st['op'] in ('new', 'plain', 'call') and got != want:
            mism.append(('outcome', st, got, want))
        if ob['envsub'] != (ex['envsub'] or None):
            mism.append(('envsub', st, ob['envsub'], ex['envsub']))
        ids = {int(k): v for k, v in ob['ids'].items()}
        for i, s in ex['subs'].items():
            o = ob['subs'].get(str(i))
            if o is None:
                mism.append(('sub-missing', st, i))
                continue
            if o['crashed'] != s['crashed']:
                mism.append(('crashed', st, i, o['crashed'], s['crashed']))
            if len(o['queue']) != len(s['queue']):
                mism.append(('queue', st, i, o['queue'], s['queue']))
            if s['cleaned'] and not (o['reaped'] and o['closed']):
                mism.append(('not-reaped', st, i, o))
        if ob['zombies'] and all(s['cleaned'] or s['alive'] for s in ex['subs'].values()):
            mism.append(('zombie', st, ob['zombies']))
    return mism


# ---------------------------------------------------------------- main
def run(ctx):
    quick = ctx.quick
    # ---- 1. Design |= Reference, exhaustive
    kw = dict(scripts=3, calls=2, crashes=2) if quick else dict(scripts=3, calls=3, crashes=3, addrs='1, 2')
    res = run_tlc('Helper', cfg(ctx, 'safety.cfg', **kw), workers=16, timeout=3000, coverage=True)
    ctx.add_tlc(res, 'safety exhaustive %s' % kw)
    if res.violated:
        ctx.violation('design:%s' % res.violated, 'Helper.tla violates %s; counterexample needs replay' % res.violated,
                      {'trace': res.trace})
        return ctx.finish()
    never = [a for a, c in res.coverage.items() if c == 0 and a[0].isupper() and a not in ('GC_Sub',)
             and a in ('GetSubprocess_Reuse', 'GetSubprocess_Spawn', 'NewISS', 'PlainCall', 'BeginCall', 'Run_DrainPop',
                       'Run_DrainDone', 'Send_CheckCrashed', 'Send_Dump', 'Listener_Run', 'Send_Load', 'DropScript',
                       'Crash', 'CrashWhileReplying')]
    if never or res.distinct < 5000:
        raise MachineryError('vacuity: actions never taken %s, states %d' % (never, res.distinct))
    ctx.coverage['exhaustive'] = True
    ctx.notes.append('GC_Sub is never enabled in the model: a CompiledSubprocess is only dereferenced after _kill, '
                     'which already ran the finalizer')
    # liveness on a smaller instance, no state constraint
    res = run_tlc('Helper', cfg(ctx, 'live.cfg', invs=['TypeOK'], props=('Terminates',), spec=True, scripts=2, calls=2,
                                crashes=2, raises=1), workers=16, timeout=3000)
    ctx.add_tlc(res, 'liveness Terminates (WF ProtocolStep)')
    if res.violated:
        raise MachineryError('liveness Terminates violated in the model: %s' % res.trace[-3:])
    # what-if: the fix reverted must break the model (sensitivity of the invariants)
    res = run_tlc('Helper', cfg(ctx, 'whatif_trunc.cfg', trunc='FALSE', scripts=2, calls=2, crashes=1), workers=8,
                  timeout=600)
    ctx.add_tlc(res, 'what-if TruncIsEOF=FALSE (must fail)')
    if not res.violated:
        raise MachineryError('what-if TruncIsEOF=FALSE did not violate any invariant: model insensitive')
    ctx.coverage['whatif_truncation_unhandled'] = 'violates %s' % res.violated
    # known deviation derived by TLC: strict OnlyInternalError fails through the handshake
    res = run_tlc('Helper', cfg(ctx, 'strict.cfg', invs=['OnlyInternalError'], props=(), scripts=1, calls=1, crashes=1),
                  workers=4, timeout=600)
    ctx.add_tlc(res, 'strict OnlyInternalError (expected counterexample: handshake)')
    if res.violated != 'OnlyInternalError':
        raise MachineryError('expected the handshake counterexample for OnlyInternalError, got %s' % res.violated)
    cex = [s['action'] for s in res.trace]
    ctx.coverage['handshake_counterexample'] = cex
    ctx.log('TLC done; handshake counterexample: %s' % cex)

    # ---- 2. the property's quantifier on the real helper
    scen = ['int_infer', 'import_json', 'builtin_complete'] if quick else \
        ['int_infer', 'import_json', 'builtin_complete', 'int_complete', 'str_complete']
    base_jobs = [{'kind': 'campaign', 'scenario': s, 'plan': {}, 'nq': 3} for s in scen]
    base = run_workers(ctx, base_jobs, label='base')
    baseline, nreq = {}, {}
    for r in base:
        s = r['job']['scenario']
        if any(o['outcome'] != 'ok' for o in r['outs']) or len({json.dumps(o['answer']) for o in r['outs']}) != 1:
            raise MachineryError('undisturbed run of %s is not stable: %s' % (s, [o['outcome'] for o in r['outs']]))
        baseline[s] = r['outs'][0]['answer']
        nreq[s] = r['outs'][0]['req']       # requests of the first query incl. handshake
    ctx.coverage['requests_per_first_query'] = nreq
    jobs = []
    rng = ctx.rng
    phases = PHASES_Q if quick else PHASES_T
    for s in scen:
        total = nreq[s]
        ks = list(range(total + 2))
        if quick and len(ks) > 8:
            ks = sorted(set([0, 1, 2, total - 1, total, total + 1] + rng.sample(ks, 4)))
        elif len(ks) > 60:
            ks = sorted(set(list(range(12)) + [total - 1, total, total + 1] + rng.sample(ks, 45)))
        for k in ks:
            for ph in phases:
                jobs.append({'kind': 'campaign', 'scenario': s, 'plan': {str(k): ph}, 'nq': 3})
        # consecutive crashes: 2 and 3 faults, later ones hitting the respawned helper
        for _ in range(6 if quick else 120):
            m = rng.choice([2, 3])
            idx = sorted(rng.sample(range(0, 2 * total + 4), m))
            plan = {str(i): rng.choice(phases) for i in idx}
            jobs.append({'kind': 'campaign', 'scenario': s, 'plan': plan, 'nq': m + 2})
    # helper raises (not a death): the exception is re-raised, the helper lives on
    ctx.log('fault campaign: %d runs' % len(jobs))
    results = run_workers(ctx, jobs, label='camp')
    raws = []
    fired_total = 0
    for r in results:
        d = judge_campaign(ctx, r, baseline)
        fired_total += len(r['faults'])
        raws.append(r['trace'])
        ctx.count('campaign_runs')
        if len(r['faults']) >= 1:
            ctx.sample(d)
    ctx.coverage['faults_fired'] = fired_total
    if fired_total < len(jobs) // 2:
        raise MachineryError('vacuity: only %d faults fired in %d runs' % (fired_total, len(jobs)))

    ctx.log('campaign done')
    # ---- 3. create/drop sequences: helper-side states are released
    churn = run_workers(ctx, [{'kind': 'churn', 'n': 60 if quick else 200, 'probe_every': 10}], label='churn')
    for r in churn:
        for c in r['counts']:
            if not set(c['states']) <= set(c['live_used']):
                ctx.violation('states-not-released', 'helper holds inference states of discarded Scripts: %d held, '
                              '%d live' % (len(c['states']), len(c['live_used'])), c)
        ctx.coverage['churn_observations'] = r['counts'][-3:]
        raws.append(r['trace'])

    ctx.log('churn done')
    # ---- 4. TLC behaviours replayed on the real objects (spec -> code)
    behs = sim_behaviours(ctx, 40 if quick else 600, 45, ctx.seed + 1)
    sjobs, ssteps = [], []
    for b in behs:
        st = macro_steps(b)
        if st:
            sjobs.append({'kind': 'sim', 'steps': st})
            ssteps.append(st)
    ctx.log('replaying %d behaviours' % len(sjobs))
    sres = run_workers(ctx, sjobs, label='sim')
    nm = 0
    for i, (st, r) in enumerate(zip(ssteps, sres)):
        mism = judge_sim(ctx, st, r, i)
        ctx.count('sim_behaviours_replayed')
        ctx.count('sim_macro_steps', len(st))
        if mism:
            nm += 1
            kinds = sorted(set(m[0] for m in mism))
            bad = [k for k in kinds if k in ('not-reaped', 'zombie')]
            if bad:
                ctx.violation('sim:%s' % ','.join(bad), 'replay of a TLC behaviour: dead helper not reaped', {'steps': st, 'mismatch': mism[:3]})
            else:
                ctx.drift({'behaviour': i, 'mismatch': [str(m)[:300] for m in mism[:3]]})
        raws.append(r['trace'])
    ctx.coverage['sim_behaviours_with_mismatch'] = nm

    # ---- 5. all hook traces validated by TLC (code -> spec), invariants at every step
    ctx.log('validating %d traces with Trace_Helper' % len(raws))
    traces, vs = validate(ctx, raws, 'Trace_Helper')
    rejected = 0
    for t, v in zip(traces, vs):
        if not v['accepted']:
            rejected += 1
            at = v['at'] or 1
            ctx.drift({'trace_rejected_at': at, 'event': t[at - 1] if at - 1 < len(t) else None,
                       'context': [e['ev'] for e in t[max(0, at - 6):at + 2]]})
    ctx.coverage['traces_rejected'] = rejected
    ctx.coverage['trace_events'] = sum(len(t) for t in traces)
    # binding self-test: drop the Kill of one failing send / corrupt a crashed flag -> REJECT
    import copy
    bad = []
    for t in traces:
        for j, e in enumerate(t):
            if e['ev'] in ('DumpFailed', 'LoadFailed'):
                b = copy.deepcopy(t)
                b[j]['killed'] = False
                bad.append(b)
                break
        if bad:
            break
    for t in traces:
        for j, e in enumerate(t):
            if e['ev'] == 'HelperRun':
                b = copy.deepcopy(t)
                b[j]['nstates'] += 1
                bad.append(b)
                break
        if len(bad) > 1:
            break
    if len(bad) == 2:
        n0 = ctx.coverage['traces_validated_against_impl']
        p = os.path.join(ctx.tmp, 'trace_helper.cfg')
        bv = validate_traces('Trace_Helper', p, bad, ctx, 'binding self-test', timeout=600)
        ctx.coverage['traces_validated_against_impl'] = n0
        if any(v['accepted'] for v in bv):
            raise MachineryError('binding self-test: corrupted trace accepted')
        ctx.coverage['binding_selftest'] = 'corrupted traces rejected at %s' % [v['at'] for v in bv]
    else:
        raise MachineryError('binding self-test could not be built')
    ctx.assumptions += ['the helper dies only by SIGKILL at the injected points; a stopped-then-killed helper models '
                        '"request sent, no reply"', 'queries are issued on fresh Scripts after a crash']
    return None
