"""C12 -- analysing sources with Script never executes them.

spec/NoExec.tla: the load decision of import_module as a small state machine over the complete decision
table (module kind x location x name class x sys.path option x smart_sys_path x load_unsafe_extensions);
TLC checks NoProjectExec / SourcesOnlyParsed / PathRestored / Terminates; the what-if without the
safe-path filter must fail.  spec->code: every row is materialised (every project file has an import-time side effect,
sourceless .pyc and a compiled extension module included; conftest.py, setup.py, sitecustomize.py,
usercustomize.py and a .pth file always present) and every query and refactoring method is run from a
buffer importing the module in a fresh process with the H3 hook on; sentinels, hook events in host and
helper and the host state are compared with the model.  code->spec: all rows plus random projects are
judged by Trace_NoExec.tla.
"""
import json
import os
import subprocess

from harness.core import MachineryError, PY, VERIF, REPO
from harness.tlc import run_tlc, cases, validate_traces

META = dict(
    spec='NoExec.tla, ProjConfig.tla, EnvSafe.tla, Trace_NoExec.tla',
    text='TLC checks the whole load-decision table (6 module kinds x 3 locations x 3 name classes x 3 sys.path '
         'options x smart_sys_path x load_unsafe_extensions = 648 rows, 3288 states): project code is never imported '
         'unless the project opted in, Python sources are only parsed, the host sys.path is restored also when the '
         'import raises, every request terminates; the what-if without the safe-path filter must fail. Every row is materialised on disk with import-time side effects in every '
         'project file and all query, search and refactoring methods are run; sentinels (host and helper), H3 hook '
         'events, sys.path/sys.modules/cwd/environ before and after are compared with the model and judged by TLC. '
         'ProjConfig.tla: the session start (what the caller passes x what a .jedi/project.json of the analysed tree '
         'says, 56 rows) is model-checked for the design as coded (violates NoTreeCodeRuns: known findings) and for the '
         'repaired design (holds); every row runs in a fresh process against a tree that ships an interpreter script '
         'and an extension module.',
    note='Side effects are observed through a sentinel file and the JEDI_VERIF hook in compiled.access; an extension '
         'module is compiled with gcc at check time (skipped and said so when no compiler is present); jedi\'s own lazy '
         'imports are excluded by a warm-up query.',
    technique='TLA+ decision-table state machine model-checked with TLC; every row replayed on a materialised project '
              '(spec->code); observations validated by TLC (code->spec)',
    design_ref='5/C12')

CFG = '''SPECIFICATION Spec
CONSTANTS
  SafeFilter = %s
  FindRestoresAlways = %s
%s
CHECK_DEADLOCK FALSE
'''


def cfgfile(ctx, name, body, safe='TRUE', findrestores='TRUE'):
    p = os.path.join(ctx.tmp, name)
    with open(p, 'w') as f:
        f.write(CFG % (safe, findrestores, body))
    return p


def run_workers(ctx, items, nproc=12):
    """Subprocess-environment rows share a worker process per chunk (each row gets its own helper); in-process rows
    import into the worker itself, so every one of them runs in a worker process of its own."""
    d = ctx.sub('c12')
    chunks = [[k for k in range(len(items)) if items[k].get('envkind') != 'inprocess'][i::nproc] for i in range(nproc)]
    chunks += [[k] for k in range(len(items)) if items[k].get('envkind') == 'inprocess']
    chunks = [c for c in chunks if c]
    out = [None] * len(items)
    pending = list(enumerate(chunks))
    running = []
    extdir = os.path.join(d, 'extcache')
    subprocess.run([PY, os.path.join(VERIF, 'harness', 'c12_worker.py'), '--build-ext', extdir], check=False,
                   stdout=subprocess.DEVNULL, stderr=subprocess.DEVNULL)

    def start(i, ch):
        envdir = os.path.join(d, 'envdir%d' % i)
        os.makedirs(envdir, exist_ok=True)
        jp, op = os.path.join(d, 'j%d.json' % i), os.path.join(d, 'o%d.json' % i)
        with open(jp, 'w') as f:
            json.dump([items[k] for k in ch], f)
        env = dict(os.environ, VERIF_REPO=REPO, PYTHONPATH=os.pathsep.join([envdir, REPO, VERIF]), C12_ENVDIR=envdir,
                   C12_TMP=d, JEDI_VERIF='1', C12_EXTDIR=extdir)
        return (ch, subprocess.Popen([PY, os.path.join(VERIF, 'harness', 'c12_worker.py'), jp, op], env=env, cwd=d,
                                     stdout=subprocess.PIPE, stderr=subprocess.STDOUT), op)
    while pending or running:
        while pending and len(running) < nproc + 4:
            i, ch = pending.pop(0)
            running.append(start(i, ch))
        ch, p, op = running.pop(0)
        so, _ = p.communicate(timeout=3000)
        if p.returncode != 0 or not os.path.exists(op):
            raise MachineryError('c12 worker failed: %s' % so.decode()[-1500:])
        for k, r in zip(ch, json.load(open(op))):
            if '_worker_error' in r:
                raise MachineryError('c12 worker error: ' + r['_worker_error'])
            out[k] = r
    return out


def event(r):
    c = r['case']
    return {'loc': c['loc'], 'syspath': c['syspath'], 'unsafe': c['unsafe'], 'executed': bool(r['target_executed']),
            'bystanders': len(r['bystander_executed']),
            'hostsame': bool(r['host']['path'] and r['host']['cwd'] and r['host']['environ']),
            'projmods': len(r['host']['project_modules_imported']),
            'execprojpath': any(e['has_project'] for e in r['execs'])
            and not c['unsafe']}


# ---------------------------------------------------------------- ProjConfig.tla: session start
PCFG = """SPECIFICATION Spec
CONSTANTS
  ConfigEnvSafe = %s
  ConfigUnsafeHonoured = %s
%s
CHECK_DEADLOCK FALSE
"""


def session_start_leg(ctx):
    """What of the analysed tree runs because of what the tree CONTAINS (.jedi/project.json) when the caller passes
    no project / environment.  The table of ProjConfig.tla is emitted with the Design's prediction, every row is
    materialised and run in a fresh process; the sentinel says what ran."""
    def pcfg(name, safe, honoured, body):
        p = os.path.join(ctx.tmp, name)
        with open(p, 'w') as f:
            f.write(PCFG % (safe, honoured, body))
        return p
    res = run_tlc('ProjConfig', pcfg('pc_coded.cfg', 'FALSE', 'TRUE', 'INVARIANT NoTreeCodeRuns'), workers=2, timeout=600)
    ctx.add_tlc(res, 'session start, design as coded: NoTreeCodeRuns')
    coded_violates = res.violated == 'NoTreeCodeRuns'
    res = run_tlc('ProjConfig', pcfg('pc_rep.cfg', 'TRUE', 'FALSE', 'INVARIANT NoTreeCodeRuns'), workers=2, timeout=600)
    ctx.add_tlc(res, 'session start, repaired design (config interpreter checked, config unsafe flag ignored): NoTreeCodeRuns')
    if res.violated:
        raise MachineryError('ProjConfig.tla: the repaired design violates NoTreeCodeRuns')
    res = run_tlc('ProjConfig', pcfg('pc_emit.cfg', 'FALSE', 'TRUE', 'CONSTRAINT Emit'), workers=1, timeout=600)
    ctx.add_tlc(res, 'session-start table emission')
    rows = cases(res)
    if len(rows) < 40:
        raise MachineryError('session-start table too small: %d' % len(rows))
    d = ctx.sub('c12cfg')
    env = dict(os.environ, VERIF_REPO=REPO, PYTHONPATH=os.pathsep.join([REPO, VERIF]), C12_TMP=d)
    env.pop('VIRTUAL_ENV', None)
    env.pop('CONDA_PREFIX', None)
    results = [None] * len(rows)
    pending = list(enumerate(rows))
    running = []
    while pending or running:
        while pending and len(running) < 12:
            i, row = pending.pop(0)
            jp, op = os.path.join(d, 'j%d.json' % i), os.path.join(d, 'o%d.json' % i)
            with open(jp, 'w') as f:
                json.dump(row, f)
            running.append((i, subprocess.Popen([PY, os.path.join(VERIF, 'harness', 'c12cfg_worker.py'), jp, op], env=env, cwd=d,
                                                stdout=subprocess.PIPE, stderr=subprocess.STDOUT), op))
        i, p, op = running.pop(0)
        so, _ = p.communicate(timeout=900)
        if p.returncode != 0 or not os.path.exists(op):
            raise MachineryError('c12cfg worker failed: %s' % so.decode()[-1500:])
        results[i] = json.load(open(op))
    ctx.coverage['session_start_rows'] = len(rows)
    nran = 0
    for row, r in zip(rows, results):
        if not r['ext_built']:
            continue
        ran = set(x for x in r['ran'] if x in ('interpreter', 'setup.py') or x.startswith('ext:'))
        ran = set('extension' if x.startswith('ext:') else x for x in ran)
        predicted = set(row['ran'])
        shape = 'projarg=%s,envarg=%s,cfgenv=%s,cfgunsafe=%s,ext=%s' % (row['projarg'], row['envarg'], row['cfgenv'],
                                                                      row['cfgunsafe'], row['ext'])
        if ran != predicted:
            ctx.drift({'session_start_row': shape, 'model': sorted(predicted), 'code': sorted(ran), 'outcomes': r['outcomes']})
        if ran:
            nran += 1
            for what in sorted(ran):
                key = {'interpreter': 'config:interpreter-named-by-discovered-project-json',
                       'extension': 'config:unsafe-extensions-enabled-by-discovered-project-json'}.get(what, 'config:' + what)
                ctx.violation(key, 'code of the analysed tree ran (%s) although the caller passed neither an interpreter of the '
                              'tree nor load_unsafe_extensions' % what, {'row': row, 'observed': r})
    ctx.coverage['session_start_rows_where_tree_code_ran'] = nran
    ctx.coverage['session_start_design_as_coded_violates'] = coded_violates
    if nran and not coded_violates:
        raise MachineryError('tree code ran but the Design as coded does not predict it')


# ---------------------------------------------------------------- EnvSafe.tla: interpreter discovery
ECFG = """SPECIFICATION Spec
CONSTANTS
  SafeCheckOn = %s
%s
CHECK_DEADLOCK FALSE
"""


def env_discovery_leg(ctx):
    def ecfg(name, on, body):
        p = os.path.join(ctx.tmp, name)
        with open(p, 'w') as f:
            f.write(ECFG % (on, body))
        return p
    res = run_tlc('EnvSafe', ecfg('es.cfg', 'TRUE', 'INVARIANT UnknownNeverRunWhenSafe'), workers=2, timeout=600)
    ctx.add_tlc(res, 'interpreter discovery: an unknown executable is never run when safe=True')
    if res.violated:
        ctx.violation('design:UnknownNeverRunWhenSafe', 'EnvSafe.tla violates UnknownNeverRunWhenSafe', {'trace': res.trace[-2:]})
        return
    res = run_tlc('EnvSafe', ecfg('es_wi.cfg', 'FALSE', 'INVARIANT UnknownNeverRunWhenSafe'), workers=2, timeout=600)
    ctx.add_tlc(res, 'what-if: no safety check (must fail)')
    if res.violated != 'UnknownNeverRunWhenSafe':
        raise MachineryError('EnvSafe.tla without the safety check should run the unknown executable')
    res = run_tlc('EnvSafe', ecfg('es_emit.cfg', 'TRUE', 'CONSTRAINT Emit'), workers=1, timeout=600)
    ctx.add_tlc(res, 'interpreter-discovery table emission')
    rows = cases(res)
    admin = os.geteuid() == 0
    system_python = next((p for p in ('/usr/bin/python3.11', '/usr/bin/python3.12', '/usr/bin/python3.10', '/usr/bin/python3.13',
                                      '/usr/bin/python3.9') if os.path.exists(p)), None)
    # the process cannot change who it is, and a byte copy of an interpreter cannot tell that it ran: those rows stay
    # model-only
    todo = [r for r in rows if r['admin'] == admin and r['cand'] != 'copy_system'
            and (r['cand'] != 'symlink_system' or system_python)]
    ctx.coverage['env_discovery_rows'] = len(rows)
    ctx.coverage['env_discovery_rows_replayed'] = len(todo)
    if len(todo) < 10:
        raise MachineryError('interpreter-discovery table: only %d rows replayable' % len(todo))
    d = ctx.sub('c12env')
    env = dict(os.environ, VERIF_REPO=REPO, PYTHONPATH=os.pathsep.join([REPO, VERIF]), C12_TMP=d)
    for k in ('VIRTUAL_ENV', 'CONDA_PREFIX'):
        env.pop(k, None)
    procs = []
    for i, r in enumerate(todo):
        jp, op = os.path.join(d, 'j%d.json' % i), os.path.join(d, 'o%d.json' % i)
        with open(jp, 'w') as f:
            json.dump(dict(r, system_python=system_python), f)
        procs.append((r, subprocess.Popen([PY, os.path.join(VERIF, 'harness', 'c12env_worker.py'), jp, op], env=env, cwd=d,
                                          stdout=subprocess.PIPE, stderr=subprocess.STDOUT), op))
    for r, p, op in procs:
        so, _ = p.communicate(timeout=900)
        if p.returncode != 0 or not os.path.exists(op):
            raise MachineryError('c12env worker failed: %s' % so.decode()[-1500:])
        o = json.load(open(op))
        shape = 'cand=%s,entry=%s,safe=%s' % (r['cand'], r['entry'], r['safe'])
        if r['cand'] == 'unknown':
            if o['sentinel_ran'] != r['ran']:
                ctx.drift({'env_discovery_row': shape, 'model_ran': r['ran'], 'code_ran': o['sentinel_ran'], 'outcome': o['outcome']})
            if r['safe'] and o['sentinel_ran']:
                ctx.violation('env-discovery:unknown-executable-run:%s' % r['entry'], 'an executable shipped by the analysed tree was '
                              'run although safe=True', {'row': r, 'observed': o})
        elif o['outcome'] != r['outcome']:
            ctx.drift({'env_discovery_row': shape, 'model': r['outcome'], 'code': o['outcome']})


def run(ctx):
    quick = ctx.quick
    body = '\n'.join('INVARIANT ' + i for i in ('NoProjectExec', 'SourcesOnlyParsed', 'PathRestored')) + \
        '\nPROPERTY Terminates'
    res = run_tlc('NoExec', cfgfile(ctx, 'mc.cfg', body), workers=8, timeout=900, coverage=True)
    ctx.add_tlc(res, 'decision table exhaustive (safety + termination)')
    if res.violated:
        ctx.violation('design:%s' % res.violated, 'NoExec.tla violates %s' % res.violated, {'trace': res.trace[-2:]})
        return ctx.finish()
    if res.distinct < 3000:
        raise MachineryError('vacuity: %d states' % res.distinct)
    ctx.coverage['exhaustive'] = True
    res = run_tlc('NoExec', cfgfile(ctx, 'whatif.cfg', 'INVARIANT NoProjectExec', safe='FALSE'), workers=4, timeout=600)
    ctx.add_tlc(res, 'what-if: no safe-path filter (must fail)')
    if res.violated != 'NoProjectExec':
        raise MachineryError('without the safe-path filter the model should import project code')
    last = res.trace[-1]['vars']
    ctx.coverage['whatif_no_filter_counterexample'] = {k: last.get(k) for k in ('kind', 'loc', 'nm', 'syspath', 'smart', 'unsafe')}
    res = run_tlc('NoExec', cfgfile(ctx, 'whatif2.cfg', 'INVARIANT PathRestored', findrestores='FALSE'), workers=4, timeout=600)
    ctx.add_tlc(res, 'what-if: sys.path not restored after a failed module lookup (must fail)')
    if res.violated != 'PathRestored':
        raise MachineryError('without the finally block of get_module_info the model should leave sys.path swapped')
    res = run_tlc('NoExec', cfgfile(ctx, 'emit.cfg', 'CONSTRAINT Emit'), workers=1, timeout=900)
    ctx.add_tlc(res, 'decision table emission')
    rows = cases(res)
    if len(rows) != 1296:
        raise MachineryError('expected 1296 rows, got %d' % len(rows))
    if quick:
        # every row with a possible execution path, plus a seeded third of the rest
        key = [r for r in rows if r['kind'] in ('extension', 'sourceless') or r['nm'] == 'auto']
        rest = [r for r in rows if r not in key]
        ctx.rng.shuffle(rest)
        rows = key[::4] if ctx.seed % 2 == 0 else key[1::4]
        rows += [r for r in key if r['envkind'] == 'inprocess' and r not in rows][ctx.seed % 3::3]
        rows += rest[:90]
    for i, r in enumerate(rows):
        r['idx'] = i
    ctx.log('materialising %d rows' % len(rows))
    results = run_workers(ctx, rows)
    traces, kept = [], []
    skipped = 0
    for r in results:
        if 'skipped' in r:
            skipped += 1
            continue
        c = r['case']
        if bool(r['target_executed']) != bool(c['executed']):
            ctx.drift({'case': {k: c[k] for k in ('kind', 'loc', 'nm', 'syspath', 'smart', 'unsafe', 'envkind')},
                       'model_executed': c['executed'], 'real_executed': r['target_executed'], 'execs': r['execs'][:3]})
        traces.append([event(r)])
        kept.append(r)
    ctx.coverage['rows_skipped_no_compiler'] = skipped
    ctx.coverage['rows_executed'] = len(kept)
    ctx.coverage['rows_with_real_import'] = sum(1 for r in kept if r['target_executed'])
    if not any(r['target_executed'] for r in kept):
        raise MachineryError('vacuity: no row ever executed its module (the env rows must)')
    vs = validate_traces('Trace_NoExec', 'Trace_NoExec.cfg', traces, ctx, 'Trace_NoExec')
    for v, r in zip(vs, kept):
        c = r['case']
        desc = {'case': {k: c[k] for k in ('kind', 'loc', 'nm', 'syspath', 'smart', 'unsafe')}, 'module': r['name'],
                'sentinel': r['sentinel'], 'execs': r['execs'][:4], 'host': r['host']}
        if not v['accepted']:
            why = v['why'] or ['?']
            ctx.violation('%s:%s:%s' % (','.join(why), c['kind'], c['nm']), 'analysing a buffer %s' % why, desc)
    for r in kept[:3]:
        ctx.sample({'case': r['case'], 'module': r['name'], 'sentinel': r['sentinel'], 'execs': r['execs'][:2]})
    # binding self-test
    bad = [dict(traces[0][0], executed=True, loc='project', syspath='default', unsafe=False)]
    n0 = ctx.coverage['traces_validated_against_impl']
    bv = validate_traces('Trace_NoExec', 'Trace_NoExec.cfg', [bad], ctx, 'binding self-test')
    ctx.coverage['traces_validated_against_impl'] = n0
    if bv[0]['accepted']:
        raise MachineryError('binding self-test: executed project module accepted')
    ctx.coverage['binding_selftest'] = 'executed project module rejected: %s' % bv[0]['why']
    session_start_leg(ctx)
    env_discovery_leg(ctx)
    return None
