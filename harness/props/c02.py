"""C02 -- inferred types agree with what the program does when executed.

spec/Infer.tla: PyCore (literals, assignment, tuples, constant indexing, calls, classes, instance and class
attributes, undecidable if) with a Concrete semantics (the interpreter) and an Abstract one (jedi's design);
TLC checks Sound and Precise on every program of the bounded space.  spec->code: every emitted program is
rendered, RUN under CPython (validates Concrete), and Script.infer is asked at every probe (compared with
Abstract; judged against the run).  code->spec: random programs assembled from snippets covering the
documented feature list are run with probes and judged by Trace_Infer.tla (Sound / Precise / Site).
"""
import contextlib
import io
import os
import random

from harness import jutil
from harness.core import MachineryError
from harness.tlc import run_tlc, cases, validate_traces

META = dict(
    spec='Infer.tla, Trace_Infer.tla',
    text='TLC checks on every PyCore program of <=2 (quick) / <=3 (thorough) statements over 64 statement forms that '
         'the abstract (set-valued, lazy) semantics transcribed from jedi describes the value the interpreter '
         'produces (Sound) and names exactly one class where every run produces the same class (Precise). Emitted '
         'programs are rendered and executed under CPython (the Concrete semantics must agree with the run) and '
         'Script.infer is asked at every probe. Random programs built from 40 feature snippets (unpacking, calls with '
         'default/keyword/*args binding, classes, inheritance, closures, lambdas, generators, comprehensions, '
         'containers, for/with/try, decorators, property/staticmethod/classmethod, magic methods, isinstance narrowing, '
         'annotations, docstring types) are executed with probes; TLC judges every probe: run-time class among the '
         'inferred ones, exactly it where single-valued, pointing at the class statement that created the value.',
    note='Programs needing stub knowledge (return types of builtin functions/methods) are not generated: typeshed is '
         'absent in this tree. Class identity = (name, line of the class statement) for classes defined in the program, '
         'name for builtins.',
    technique='TLA+ two-semantics spec (concrete vs abstract interpreter) model-checked with TLC; emitted programs executed '
              'and inferred (spec->code); random feature programs with run-time probes validated by TLC (code->spec)',
    design_ref='5/C02')

PRELUDE = '''import sys
T_zz = len(sys.argv) >= 0
F_zz = len(sys.argv) < 0
def f1(p):
    return p
def f2(p):
    return (p, p)
def f3(p):
    return 1
class K:
    a = 1.5
    def __init__(self, q):
        self.b = q
    @classmethod
    def make(cls, q):
        return cls(q)
class S(K):
    pass
'''
KLINE = PRELUDE.split('\n').index('class K:') + 1
CLINES = {'K': KLINE, 'S': PRELUDE.split('\n').index('class S(K):') + 1}


def render_stmt(s):
    v, w, w2 = s['v'], s['w'], s['w2']
    op = s['op']
    if op == 'Lit':
        return ['%s = %s' % (v, '1' if s['t'] == 'int' else '1.5')]
    if op == 'Var':
        return ['%s = %s' % (v, w)]
    if op == 'Tup':
        return ['%s = (%s, %s)' % (v, w, w2)]
    if op == 'Idx':
        return ['%s = %s[%d]' % (v, w, s['i'] - 1)]
    if op == 'Call':
        return ['%s = f%d(%s)' % (v, s['f'], w)]
    if op == 'New':
        return ['%s = K(%s)' % (v, w)]
    if op == 'NewS':
        return ['%s = S(%s)' % (v, w)]
    if op == 'Make':
        return ['%s = %s.make(%s)' % (v, 'K' if s['f'] == 1 else 'S', w)]
    if op == 'Attr':
        return ['%s = %s.%s' % (v, w, s['n'])]
    if op == 'If':
        return ['if %s:' % ('T_zz' if s['taken'] == 1 else 'F_zz'), '    %s = %s' % (v, w), 'else:', '    %s = %s' % (v, w2)]
    raise ValueError(op)


def kind_of(value):
    t = type(value)
    return {'int': 'int', 'float': 'float', 'tuple': 'tuple'}.get(t.__name__, t.__name__)


def core_case(case):
    """Render a PyCore program, run it, infer at the probes after the last statement."""
    lines = PRELUDE.split('\n')[:-1]
    for s in case['prog']:
        lines += render_stmt(s)
    probes = {}
    for v in ('x', 'y'):
        lines.append(v)
        probes[v] = len(lines)
    src = '\n'.join(lines) + '\n'
    # run: the bare-name probe lines become recordings
    run_lines = list(lines)
    for v, ln in probes.items():
        run_lines[ln - 1] = 'try:\n    REC_zz[%r] = %s\nexcept NameError:\n    pass' % (v, v)
    g = {'REC_zz': {}}
    dead = False
    try:
        with contextlib.redirect_stdout(io.StringIO()):
            exec(compile('REC_zz = REC_zz\n' + '\n'.join(run_lines), '<c02>', 'exec'), g)
    except Exception:  # noqa
        dead = True
    runtime = {v: kind_of(val) for v, val in g['REC_zz'].items()}
    out = {'src': src, 'dead': dead, 'runtime': runtime, 'infer': {}}
    if dead:
        return out
    for v, ln in probes.items():
        r = jutil.safe(lambda: jutil.script(src).infer(ln, 1))
        if r[0] == 'exc':
            out['infer'][v] = {'exc': r[2]}
        else:
            out['infer'][v] = {'names': sorted(set(d.name for d in r[1])),
                               'klines': {c: sorted(set(d.line for d in r[1] if d.name == c)) for c in CLINES}}
    return out


# ---------------------------------------------------------------- feature snippets (code -> spec)
# A probe is a bare expression statement line ending in '#P' (every run gives the same class) or '#PU' (several
# classes can reach it).  {n} makes names unique, {a}/{b} are literals of two different classes.
LITS = [('1', 'int'), ('1.5', 'float'), ("'s'", 'str'), ('[1]', 'list'), ('(1, 2)', 'tuple'), ("{'k': 1}", 'dict'),
        ('{1}', 'set'), ('None', 'NoneType'), ('True', 'bool'), ("b'x'", 'bytes')]
SNIPPETS = [
    # assignment and unpacking
    "v{n} = {a}\nw{n} = v{n}\nw{n} #P",
    "p{n}, q{n} = {a}, {b}\np{n} #P\nq{n} #P",
    "(p{n}, (q{n}, r{n})) = ({a}, ({b}, {a}))\nq{n} #P\nr{n} #P",
    "p{n} = q{n} = {a}\nq{n} #P",
    # calls / returns / parameter binding
    "def fn{n}(x, y={b}):\n    return x\nfn{n}({a}) #P\nfn{n}(y={a}, x={b}) #P",
    "def fn{n}(x, y={b}):\n    return y\nfn{n}({a}) #P\nfn{n}({b}, {a}) #P",
    "def fn{n}(*args, **kw):\n    return args\nfn{n}({a}) #P",
    "def fn{n}(*args):\n    return args[0]\nfn{n}({a}, {b}) #P",
    "def fn{n}(x, *, key):\n    return key\nfn{n}({b}, key={a}) #P",
    "def fn{n}(**kw):\n    return kw\nfn{n}(k={a}) #P",
    # classes, instances, attributes, inheritance
    "class C{n}:\n    attr = {a}\n    def __init__(self, v):\n        self.v = v\n    def get(self):\n        return self.v\nc{n} = C{n}({b})\nc{n} #P\nc{n}.attr #P\nc{n}.v #P\nc{n}.get() #P\nC{n} #P",
    "class B{n}:\n    def who(self):\n        return {a}\n    def me(self):\n        return self\nclass D{n}(B{n}):\n    def who(self):\n        return {b}\nd{n} = D{n}()\nd{n}.who() #P\nd{n}.me() #P",
    "class B{n}:\n    base_attr = {a}\nclass D{n}(B{n}):\n    pass\nD{n}().base_attr #P\nD{n}.base_attr #P",
    # inherited classmethods / staticmethods / properties through subclasses (cls is the class looked up on)
    "class CB{n}:\n    @classmethod\n    def make(cls):\n        return cls()\n    @classmethod\n    def kind(cls):\n        return cls\n    def clone(self):\n        return self\n    @staticmethod\n    def st():\n        return {a}\n    @property\n    def me(self):\n        return self\nclass CS{n}(CB{n}):\n    pass\nclass CT{n}(CS{n}):\n    pass\nCS{n}.make() #P\nCT{n}.make() #P\nCB{n}.make() #P\nCS{n}().make() #P\nCT{n}.kind() #P\nCT{n}().clone() #P\nCT{n}.st() #P\nCS{n}().me #P",
    # parameter defaults and annotations of methods are evaluated in the CLASS body (names bound there, also when the
    # same name is bound outside the class)
    "class DA{n}:\n    pass\nclass DB{n}:\n    pass\nItem{n} = DA{n}\nclass DK{n}:\n    Item{n} = DB{n}\n    def get(self, v=Item{n}()):\n        return v\n    @staticmethod\n    def st(v=Item{n}()):\n        return v\n    @classmethod\n    def cm(cls, v=Item{n}()):\n        return v\n    def __init__(self, w=Item{n}()):\n        self.w = w\nDK{n}().get() #P\nDK{n}.st() #P\nDK{n}.cm() #P\nDK{n}().w #P\nDK{n}().get(DA{n}()) #P",
    "class DC{n}:\n    pass\nclass DL{n}:\n    Local{n} = DC{n}\n    def get(self, v=Local{n}()):\n        return v\n    lam = lambda self, v=Local{n}(): v\nDL{n}().get() #P\nDL{n}().lam() #P",
    # closures and lambdas
    "def outer{n}(x):\n    def inner():\n        return x\n    return inner\nouter{n}({a})() #P",
    "lam{n} = lambda x, y={b}: y\nlam{n}({a}) #P\nlam{n}({a}, {a}) #P",
    # generators and comprehensions
    "def gen{n}():\n    yield {a}\nfor g{n} in gen{n}():\n    g{n} #P",
    "lst{n} = [x for x in [{a}]]\nlst{n} #P\nlst{n}[0] #P",
    "for e{n} in [{a}, {a}]:\n    e{n} #P",
    "for e{n} in ({a}, {b}):\n    e{n} #PU",
    "class GA{n}:\n    pass\nclass GB{n}:\n    pass\nclass GS{n}:\n    pass\ndef gen{n}():\n    for item in (GA{n}(), GB{n}()):\n        yield item\n        yield GS{n}()\ng1{n}, g2{n}, g3{n}, g4{n} = gen{n}()\ng1{n} #P\ng2{n} #P\ng3{n} #P\ng4{n} #P",
    "def gen{n}():\n    yield {a}\n    yield {b}\n    yield {a}\nu1{n}, u2{n}, u3{n} = gen{n}()\nu1{n} #P\nu2{n} #P\nu3{n} #P",
    "def inner{n}():\n    yield {a}\n    yield {b}\ndef outer{n}():\n    yield from inner{n}()\ny1{n}, y2{n} = outer{n}()\ny1{n} #P\ny2{n} #P",
    "def gen{n}():\n    for k in [{a}]:\n        yield k\n    yield {b}\nw1{n}, w2{n} = gen{n}()\nw1{n} #P\nw2{n} #P",
    # container literals and indexing
    "t{n} = ({a}, {b})\nt{n}[0] #P\nt{n}[1] #P",
    "l{n} = [{a}, {a}]\nl{n}[0] #P",
    "d{n} = {{'k': {a}, 'j': {b}}}\nd{n}['k'] #P",
    # for / with / try
    "class CM{n}:\n    def __enter__(self):\n        return {a}\n    def __exit__(self, *args):\n        return False\nwith CM{n}() as cm{n}:\n    cm{n} #P",
    "class E{n}(Exception):\n    pass\ntry:\n    raise E{n}()\nexcept E{n} as exc{n}:\n    exc{n} #P",
    # decorators
    "def deco{n}(f):\n    return f\n@deco{n}\ndef dfn{n}():\n    return {a}\ndfn{n}() #P",
    "def deco{n}(f):\n    def wrapper(*args):\n        return f(*args)\n    return wrapper\n@deco{n}\ndef dfn{n}(x):\n    return x\ndfn{n}({a}) #P",
    # property / staticmethod / classmethod
    "class P{n}:\n    @property\n    def prop(self):\n        return {a}\n    @staticmethod\n    def st():\n        return {b}\n    @classmethod\n    def cl(cls):\n        return cls()\nP{n}().prop #P\nP{n}.st() #P\nP{n}.cl() #P",
    # magic methods
    "class M{n}:\n    def __call__(self):\n        return {a}\n    def __getitem__(self, i):\n        return {b}\n    def __iter__(self):\n        return iter([{a}])\nm{n} = M{n}()\nm{n}() #P\nm{n}[0] #P",
    "class I{n}:\n    def __iter__(self):\n        yield {a}\nfor it{n} in I{n}():\n    it{n} #P",
    # isinstance narrowing
    "def nar{n}(x):\n    if isinstance(x, int):\n        return x\n    return {b}\nu{n} = {a} if T_zz else 3\nif isinstance(u{n}, int):\n    u{n} #PU",
    # annotations and docstring types
    "class A{n}:\n    pass\ndef ann{n}(x: A{n}):\n    return x\nann{n}(A{n}()) #P",
    "class A{n}:\n    pass\ndef doc{n}(x):\n    \"\"\"\n    :type x: A{n}\n    :rtype: A{n}\n    \"\"\"\n    return x\ndoc{n}(A{n}()) #P",
    # union through an undecidable branch
    "if T_zz:\n    un{n} = {a}\nelse:\n    un{n} = {b}\nun{n} #PU",
    "def br{n}():\n    if F_zz:\n        return {a}\n    return {b}\nbr{n}() #PU",
]


def make_program(rng, k):
    parts = ['import sys', 'T_zz = len(sys.argv) >= 0', 'F_zz = len(sys.argv) < 0']
    for i in range(k):
        sn = rng.choice(SNIPPETS)
        (a, _), (b, _) = rng.sample(LITS, 2)
        parts.append(sn.format(n='_%d' % i, a=a, b=b))
    return '\n'.join(parts) + '\n'


def feature_job(arg):
    seed, k = arg
    rng = random.Random(seed)
    src = make_program(rng, k)
    lines = src.split('\n')
    probes = []
    run_lines = []
    for i, ln in enumerate(lines):
        if ln.rstrip().endswith('#P') or ln.rstrip().endswith('#PU'):
            single = ln.rstrip().endswith('#P')
            expr = ln[:ln.rindex('#')].rstrip()
            indent = len(expr) - len(expr.lstrip())
            probes.append({'line': i + 1, 'col': len(expr), 'expr': expr.strip(), 'single': single})
            run_lines.append(' ' * indent + 'REC_zz.append((%d, %s))' % (len(probes) - 1, expr.strip()))
        else:
            run_lines.append(ln)
    rec = []
    g = {'REC_zz': rec, '__name__': '__c02__'}
    err = None
    try:
        with contextlib.redirect_stdout(io.StringIO()):
            exec(compile('\n'.join(run_lines), '<c02f>', 'exec'), g)
    except Exception as e:  # noqa
        err = type(e).__name__
    events = []
    clean = '\n'.join(ln[:ln.rindex('#')].rstrip() if ln.rstrip().endswith(('#P', '#PU')) else ln for ln in lines)
    user_classes = {}
    import ast
    for node in ast.walk(ast.parse(clean)):
        if isinstance(node, ast.ClassDef):
            user_classes[node.name] = node.lineno
    seen = set()
    for idx, val in rec:
        if idx in seen:
            continue
        seen.add(idx)
        p = probes[idx]
        cls = val if isinstance(val, type) else type(val)
        rname = cls.__name__
        rline = user_classes.get(rname, 0) if cls.__module__ == '__c02__' else 0
        r = jutil.safe(lambda: jutil.script(clean).infer(p['line'], p['col']))
        if r[0] == 'exc':
            events.append({'probe': p, 'runtime': rname, 'blocked': r[2]})
            continue
        inferred = sorted(set((d.name, d.line or 0) for d in r[1]))
        events.append({'probe': p, 'runtime': rname, 'rline': rline, 'inferred': inferred})
    return {'src': clean, 'events': events, 'err': err}


CFG = '''INIT Init
NEXT Next
CONSTANTS
  MaxLen = %d
  EmitMod = %d
  EmitRem = %d
INVARIANT Sound
INVARIANT Precise
%s
CHECK_DEADLOCK FALSE
'''


def run(ctx):
    quick = ctx.quick

    def cfg(name, maxlen, mod, rem, emit):
        p = os.path.join(ctx.tmp, name)
        with open(p, 'w') as f:
            f.write(CFG % (maxlen, mod, rem, 'CONSTRAINT Emit' if emit else ''))
        return p
    res = run_tlc('Infer', cfg('mc.cfg', 2 if quick else 3, 1, 0, False), workers=16, timeout=3000)
    ctx.add_tlc(res, 'Sound + Precise, all programs of <= %d statements' % (2 if quick else 3))
    if res.violated:
        ctx.violation('design:%s' % res.violated, 'Infer.tla: the abstract semantics violates %s' % res.violated,
                      {'trace': res.trace[-1:]})
        return ctx.finish()
    if res.distinct < 4000:
        raise MachineryError('vacuity: %d states' % res.distinct)
    ctx.coverage['exhaustive'] = True
    ps = os.path.join(ctx.tmp, 'strict.cfg')
    with open(ps, 'w') as f:
        f.write(CFG.replace('INVARIANT Precise', 'INVARIANT PreciseStrict') % (2, 1, 0, ''))
    r2 = run_tlc('Infer', ps, workers=16, timeout=3000)
    ctx.add_tlc(r2, 'strict Precise (expected counterexample: IfElseKeepsEarlier)')
    if r2.violated != 'PreciseStrict':
        raise MachineryError('PreciseStrict should fail through the named deviation IfElseKeepsEarlier')
    import re as _re
    m_ = _re.findall(r'op \|-> "(\w+)"', r2.stdout[r2.stdout.rfind('State '):])
    ctx.coverage['strict_counterexample'] = m_
    mod = 5 if quick else 131
    res = run_tlc('Infer', cfg('emit.cfg', 2 if quick else 3, mod, ctx.seed % mod, True), workers=1, timeout=3000)
    ctx.add_tlc(res, 'program emission')
    cs = cases(res)
    if len(cs) < 300:
        raise MachineryError('too few programs emitted: %d' % len(cs))
    ctx.log('replaying %d PyCore programs' % len(cs))
    results = jutil.pmap(core_case, cs)
    jutil.check_worker_errors(results)
    traces, owners = [], []
    blocked = {}
    for case, r in zip(cs, results):
        if r['dead'] != case['dead']:
            raise MachineryError('Concrete semantics disagrees with CPython (dead=%s, run died=%s):\n%s' % (case['dead'], r['dead'], r['src']))
        if r['dead']:
            continue
        for v in ('x', 'y'):
            ck = case['conc'][v]
            rk = r['runtime'].get(v, 'unbound')
            if {'K': 'K'}.get(ck, ck) != rk:
                raise MachineryError('Concrete semantics disagrees with CPython for %s: model %s, run %s\n%s' % (v, ck, rk, r['src']))
            if rk == 'unbound':
                continue
            inf = r['infer'][v]
            if 'exc' in inf:
                blocked[inf['exc']] = blocked.get(inf['exc'], 0) + 1
                continue
            model = sorted(set(case['abs'][v]))
            if inf['names'] != model:
                ctx.drift({'var': v, 'model': model, 'code': inf['names'], 'src': r['src'][len(PRELUDE):]})
            ev = {'runtime': rk, 'rline': CLINES.get(rk, 0),
                  'inferred': [[n, (CLINES[n] if n in CLINES and CLINES[n] in inf['klines'][n] else 0)] for n in inf['names']],
                  'single': bool(case['single'][v])}
            traces.append([ev])
            owners.append({'src': r['src'][len(PRELUDE):], 'var': v, 'runtime': rk, 'inferred': inf['names'],
                           'tainted': v in case['tainted']})
    # ---- feature programs
    n = 150 if quick else 2500
    jobs = [(ctx.seed * 100003 + i, ctx.rng.randrange(3, 7)) for i in range(n)]
    fres = jutil.pmap(feature_job, jobs, chunksize=4)
    jutil.check_worker_errors(fres)
    nprobes = 0
    for r in fres:
        if r['err']:
            raise MachineryError('feature program raised %s:\n%s' % (r['err'], r['src']))
        for e in r['events']:
            if 'blocked' in e:
                blocked[e['blocked']] = blocked.get(e['blocked'], 0) + 1
                continue
            nprobes += 1
            traces.append([{'runtime': e['runtime'], 'rline': e['rline'], 'inferred': [list(x) for x in e['inferred']],
                            'single': e['probe']['single']}])
            owners.append({'src': r['src'], 'probe': e['probe'], 'runtime': e['runtime'], 'inferred': e['inferred']})
    ctx.coverage['feature_probes'] = nprobes
    ctx.coverage['blocked_by_internal_errors'] = blocked
    ctx.log('validating %d probes' % len(traces))
    vs = validate_traces('Trace_Infer', 'Trace_Infer.cfg', traces, ctx, 'Trace_Infer', chunk=5000)
    for v, o in zip(vs, owners):
        if not v['accepted']:
            why = ','.join(v['why'] or ['?'])
            feat = o['probe']['expr'] if 'probe' in o else 'pycore'
            ctx.violation('%s:%s' % (why, _shape(o)), 'infer at a probe violates %s' % why, o)
    ctx.sample(owners[0])
    ctx.sample(owners[-1])
    bad = [[dict(traces[0][0], runtime='Nonexistent')]]
    n0 = ctx.coverage['traces_validated_against_impl']
    bv = validate_traces('Trace_Infer', 'Trace_Infer.cfg', bad, ctx, 'binding self-test')
    ctx.coverage['traces_validated_against_impl'] = n0
    if bv[0]['accepted']:
        raise MachineryError('binding self-test: wrong run-time class accepted')
    ctx.coverage['binding_selftest'] = 'wrong run-time class rejected: %s' % bv[0]['why']
    return None


def _shape(o):
    """Shape key of a failing probe: the snippet family (first identifier stem of the probed expression)."""
    import re
    if 'probe' not in o:
        return 'pycore:%s' % ('if-else-rebind' if o.get('tainted') else o['var'])
    m = re.match(r'[A-Za-z]+', o['probe']['expr'])
    return 'feature:%s:%s' % (m.group(0) if m else '?', o['runtime'])
