"""C03 -- name resolution follows Python's scoping rules.

spec/Scoping.tla: programs (scope trees x binding patterns x uses) are built item by item by
TLC; Reference = CPython's symbol table + execution semantics (Obs, Landings), Design = jedi's
context chain / ParserTreeFilter / GlobalNameFilter / goto.  Legs:
  1. TLC exhaustive: DesignOK (Design |= Reference outside the named deviation shapes) and the
     reachability of the deviations (DesignOKStrict must fail; its counterexample is replayed).
  2. spec -> code: emitted cases are rendered, compiled, classified by `symtable`, executed with
     instrumented loads, and queried with Script.goto; Reference ~ CPython, Design ~ jedi.
  3. code -> spec: the same observations of emitted and of larger random programs are judged by
     TLC (Trace_Scoping.tla) against the Reference.
"""
import copy
import json
import os
import shutil
import tempfile

from harness import jutil, scoping
from harness.core import MachineryError
from harness.tlc import run_tlc, cases

META = dict(
    spec='Scoping.tla, Trace_Scoping.tla',
    text='TLC builds every program of a bounded item grammar (module/function/class/lambda/comprehension '
         'scopes, bindings by =/import/for/with/def/class/walrus/param/except/del, global/nonlocal, loads in '
         'bodies, headers, comprehension element/iterable/condition, one loop) and checks that the transcription '
         'of jedi\'s filter chain lands only on bindings of the scope CPython\'s semantics (symbol table + '
         'execution model, both in TLA+) took the value from, exactly so in straight-line code, outside six named '
         'deviation mechanisms; emitted cases are rendered, run under CPython (symtable + instrumented execution '
         'validate the Reference) and queried with Script.goto (validates the Design); all observations, also of '
         'larger random programs, are judged by TLC (Trace_Scoping).',
    note='Trusts TLC, the renderer/instrumentation of harness/scoping.py and CPython 3.12 as oracle. Programs call '
         'every function once right after its definition; if/while/try flow, nested loops, augmented assignment, '
         'star imports, builtins and attribute access are outside the model. Known deviation mechanisms are '
         'suppressed only when the Design predicts the landing.',
    technique='TLA+ spec (Design|=Reference) model-checked with TLC; spec->code replay of emitted programs with '
              'CPython symtable/execution as oracle; code->spec trace validation of goto observations',
    design_ref='5/C03')

ALL = '<- AllFeat'
CORE = '= {"fn", "defer", "class", "comp", "loop", "cif", "iteruse"}'
MID = '= {"fn", "defer", "class", "lambda", "comp", "loop", "cif", "iteruse", "walrus", "global", "nonlocal", "param"}'

CFG = '''INIT Init
NEXT Next
CONSTANTS
  NNames = %d
  MaxItems = %d
  MaxDepth = %d
  Feat %s
  EmitMod = %d
  EmitRem = %d
  SpecMod = %d
%s
CHECK_DEADLOCK FALSE
'''

KNOWN_MECHS = ('comp-if-clause', 'global-declaration-ignored', 'class-scope-visible-inside',
               'class-body-sees-function', 'use-before-binding')


def write_cfg(ctx, name, nn, mi, md, feat, mod=1, rem=0, tail='', spec=1):
    p = os.path.join(ctx.tmp, name)
    with open(p, 'w') as f:
        f.write(CFG % (nn, mi, md, feat, mod, rem, spec, tail))
    return p


# ---------------------------------------------------------------- replay of one abstract program
def observe(arg):
    """Render, compile, classify, execute, goto.  arg = {prog, sc, seed}."""
    prog, sc, seed = arg['prog'], arg['sc'], arg.get('seed', 0)
    out = {'prog': prog, 'sc': sc, 'seed': seed}
    r = scoping.render(prog, sc, seed)
    out['src'] = r.source
    out['variants'] = sorted(set(r.variants.values()))
    try:
        compile(r.source, '<c03case>', 'exec')
    except SyntaxError as e:
        out['syntax'] = str(e)
        return out
    out['obs'] = scoping.execute(r)
    st = scoping.symtable_classes(prog, sc, r.source)
    bad = scoping.comp_polluted(prog, sc)
    out['cls'] = [[s, n, c] for (s, n), c in sorted(st.items()) if (s, n) not in bad]
    g = jutil.safe(lambda: scoping.goto_items(r))
    if g[0] == 'exc':
        out['exc'] = g[2]
        return out
    out['goto'] = g[1]
    out['use_pos'] = {u: list(p) for u, p in r.use_pos.items()}
    return out


def observe1(arg):
    """observe() in a forked child: the parent must not own a jedi helper subprocess (and its
    stderr reader thread) when jutil.pmap forks later, or the children deadlock tearing it down."""
    import multiprocessing
    with multiprocessing.get_context('fork').Pool(1, initializer=jutil._init_worker) as pool:
        r = pool.apply(jutil._call, ((observe, arg),))
    jutil.check_worker_errors([r])
    return r


def to_trace(o):
    ev = [{'k': 'prog', 'prog': o['prog'], 'sc': o['sc'], 'cls': o['cls']}]
    for u in sorted(o['goto']):
        ev.append({'k': 'use', 'i': u, 'obs': o['obs'].get(u, []), 'goto': o['goto'][u]})
    return ev


def _validate_chunk(arg):
    tmp, part = arg
    d = tempfile.mkdtemp(prefix='traces_', dir=tmp)
    tf = os.path.join(d, 'traces.json')
    with open(tf, 'w') as f:
        json.dump(part, f)
    try:
        return run_tlc('Trace_Scoping', 'Trace_Scoping.cfg', workers=1, env={'TRACE_FILE': tf}, timeout=3000)
    finally:
        shutil.rmtree(d, True)


def validate(ctx, traces, label, par=6):
    """Trace_Scoping over traces (several single-worker TLC processes side by side);
    returns per trace {'rejects': [(l, why)], 'drift': [l]}.  Verdicts are total."""
    from concurrent.futures import ThreadPoolExecutor
    if not traces:
        return []
    n = max(1, min(par, len(traces) // 20 or 1))
    size = -(-len(traces) // n)
    parts = [traces[i:i + size] for i in range(0, len(traces), size)]
    with ThreadPoolExecutor(len(parts)) as ex:
        results = list(ex.map(_validate_chunk, [(ctx.tmp, p) for p in parts]))
    out = []
    for k, (part, res) in enumerate(zip(parts, results)):
        if res.violated:
            raise MachineryError('Trace_Scoping reported %s instead of verdicts:\n%s' % (res.violated, res.stdout[-2000:]))
        ctx.add_tlc(res, '%s [%d/%d]' % (label, k + 1, len(parts)))
        acc = set(p[0] for p in res.tagged('ACCEPT'))
        vs = [{'rejects': [], 'drift': [], 'skip': False} for _ in part]
        for p in res.tagged('SKIP'):
            vs[p[0] - 1]['skip'] = True
        for p in res.tagged('REJECT'):
            why = p[2]
            why = sorted(map(str, why[1])) if isinstance(why, tuple) else [str(why)]
            vs[p[0] - 1]['rejects'].append((p[1], why))
        for p in res.tagged('DRIFT'):
            vs[p[0] - 1]['drift'].append(p[1])
        for i in range(len(part)):
            if (i + 1) not in acc:
                raise MachineryError('Trace_Scoping gave no verdict for a trace (%s, chunk %d, trace %d)' % (label, k, i + 1))
        out += vs
    return out


def judge(ctx, obs_list, verdicts, origin):
    """Turn TLC's verdicts on recorded observations into drift / violations / machinery errors."""
    for o, v in zip(obs_list, verdicts):
        if v['skip']:
            ctx.count('skipped_cpython_3_12_pep709_hazard')
            continue
        tr = to_trace(o)
        for l in v['drift']:
            ctx.drift({'origin': origin, 'source': o['src'], 'use': tr[l - 1]['i'], 'code_goto': tr[l - 1]['goto']})
        for (l, why) in v['rejects']:
            ev = tr[l - 1]
            if 'Valid' in why or 'Symtable' in why or 'Observed' in why:
                raise MachineryError('Reference disagrees with CPython (%s) on\n%s\nevent %s' % (why, o['src'], ev))
            kind = 'scope' if 'scope' in why else 'exact'
            mech = [w for w in why if w not in ('scope', 'exact', 'drift')]
            mech = mech[0] if mech else kind      # {"exact","exact"} cannot happen; defensive
            key = '%s:%s' % (kind, mech) + (':unpredicted' if 'drift' in why else '')
            ctx.count('judged_bad_' + key)
            line, col = o['use_pos'][ev['i']] if 'use_pos' in o else (0, 0)
            ctx.violation(key,
                          'goto on an executed use lands outside the scope CPython took the value from'
                          if kind == 'scope' else
                          'straight-line code: goto does not return exactly the binding whose value was observed',
                          {'source': o['src'], 'line': line, 'column': col, 'use_item': ev['i'],
                           'observed_bindings': ev['obs'], 'goto_items': ev['goto'], 'mechanism': mech,
                           'prog': o['prog'], 'sc': o['sc'], 'seed': o['seed'], 'origin': origin})


# ---------------------------------------------------------------- random larger programs (code -> spec)
def gen_program(rng, size, maxdepth, nnames=4):
    """Random walk over the item grammar of Scoping.tla (guards loosely re-stated; CPython's
    compile() is the judge of validity, see run())."""
    prog, sc, stack = [], [], []
    loops = []          # open loops: (index, scope)

    def top():
        return stack[-1] if stack else 0

    def kind(s):
        return prog[s - 1]['h'] if s else 'module'

    def add(t, n=0, h='', s=None, d=0):
        prog.append({'t': t, 'n': n, 'h': h, 'd': d})
        sc.append(top() if s is None else s)
        return len(prog)

    def phase(c):
        ts = [i for i in range(len(prog)) if sc[i] == c and prog[i]['t'] == 'target']
        if not ts:
            return 'elt'
        return 'cond' if any(sc[i] == c and prog[i]['t'] == 'cif' for i in range(len(prog))) else 'iter'

    def name():
        return rng.randint(1, nnames)

    def close():
        s = stack[-1]
        if kind(s) == 'comp' and phase(s) == 'elt':
            add('target', rng.randint(0, nnames))
        while loops and loops[-1][1] == s:
            loops.pop()
            add('endloop')
        add('close', s=s)
        stack.pop()

    if rng.random() < 0.75:          # most programs start with some module-level bindings
        for n in rng.sample(range(1, nnames + 1), rng.randint(1, nnames)):
            add('bind', n, 'assign')
    while len(prog) < size:
        s = top()
        k = kind(s)
        x = rng.random()
        if k in ('module', 'fn', 'class'):
            fresh = len(prog) == s      # directly after the open item
            if k == 'fn' and fresh and rng.random() < 0.5:
                for n in rng.sample(range(1, nnames + 1), rng.randint(1, 2)):
                    add('bind', n, 'param')
                if rng.random() < 0.3 and not prog[s - 1]['d']:
                    add('huse', name())
                continue
            if k in ('fn', 'class') and fresh and rng.random() < 0.2 and not prog[s - 1]['d']:
                add('huse', name())
                continue
            if x < 0.30:
                add('bind', name(), 'assign')
            elif x < 0.33:
                add('bind', name(), 'except')
            elif x < 0.37:
                add('bind', name(), 'del')
            elif x < 0.62:
                add('use', name())
            elif x < 0.68 and k != 'module':
                n = name()
                if not any(sc[i] == s and prog[i]['n'] == n for i in range(len(prog))):
                    add(rng.choice(['global', 'nonlocal', 'global']), n)
            elif x < 0.86 and len(stack) < maxdepth:
                kd = rng.choice(['fn', 'fn', 'fn', 'class', 'class', 'lambda', 'comp'])
                stack.append(add('open', 0, kd, d=1 if kd == 'fn' and rng.random() < 0.4 else 0))
            elif x < 0.90 and not any(ls == s for (_, ls) in loops):
                loops.append((add('loop'), s))
            elif x < 0.94 and loops and loops[-1][1] == s and len(prog) > loops[-1][0]:
                loops.pop()
                add('endloop')
            elif stack:
                close()
        else:
            ph = phase(s) if k == 'comp' else 'body'
            fresh = len(prog) == s
            if k == 'lambda' and fresh and rng.random() < 0.5:
                for n in rng.sample(range(1, nnames + 1), rng.randint(1, 2)):
                    add('bind', n, 'param')
                # a default in the lambda header, often named like one of its parameters -- only for lambdas written
                # directly in a statement scope (the static Reference of this harness places header uses of lambdas that
                # are nested in other expression scopes wrongly; CPython is the judge and would reject the run), and not in
                # class bodies (known finding scope:lambda-default-in-class-body)
                if rng.random() < 0.5 and kind(sc[s - 1]) in ('module', 'fn'):
                    add('huse', prog[-1]['n'] if rng.random() < 0.6 else name())
                continue
            if ph == 'iter':
                if prog[-1]['t'] == 'target' and x < 0.4:
                    add('use', name())
                elif x < 0.7:
                    add('cif')
                else:
                    close()
                continue
            if x < 0.40:
                add('use', name())
            elif x < 0.52:
                add('bind', name(), 'walrus')
            elif x < 0.66 and len(stack) < maxdepth:
                stack.append(add('open', 0, rng.choice(['lambda', 'comp'])))
            elif x < 0.85 and ph == 'elt':
                add('target', rng.randint(0, nnames))
            else:
                close()
    while stack:
        close()
    while loops:
        loops.pop()
        add('endloop')
    return prog, sc


def random_case(arg):
    seed, size, depth = arg
    import random
    rng = random.Random(seed)
    tried = 0
    while True:
        tried += 1
        prog, sc = gen_program(rng, size, depth)
        if not any(it['t'] in ('use', 'huse') for it in prog):
            continue
        r = scoping.render(prog, sc, seed)
        try:
            compile(r.source, '<c03case>', 'exec')
        except SyntaxError:
            if tried > 400:
                raise
            continue
        o = observe({'prog': prog, 'sc': sc, 'seed': seed})
        o['tried'] = tried
        return o


# ---------------------------------------------------------------- main
def emitted(res, what):
    """Cases printed by a TLC run; every CASE line must parse (guards multi-worker printing)."""
    part = cases(res)
    raw = set(l for l in res.stdout.splitlines() if l.startswith('<<"CASE"'))
    if len(raw) != len(part):
        raise MachineryError('%s: %d CASE lines printed, %d parsed' % (what, len(raw), len(part)))
    return part


def exhaustive(ctx, name, nn, mi, md, feat, min_states, emit_mod=0, spec=1):
    """Design |= Reference over the whole bounded space; optionally the same run emits the
    slice `Hash(prog) % emit_mod = seed % emit_mod` of its complete programs for replay, plus
    (slice 0 mod spec of) the programs TLC singles out as Special: an executed use deviates or
    lands on a textually later binding."""
    tail = 'INVARIANT DesignOK' + ('\nCONSTRAINT Emit' if emit_mod else '')
    cfg = write_cfg(ctx, name + '.cfg', nn, mi, md, feat, emit_mod or 1, ctx.seed % (emit_mod or 1), tail, spec)
    res = run_tlc('Scoping', cfg, workers=16, timeout=3000)
    ctx.add_tlc(res, 'Design|=Reference exhaustive %s NNames=%d MaxItems=%d MaxDepth=%d Feat%s%s'
                % (name, nn, mi, md, feat, (' + emission of slice %d mod %d' % (ctx.seed % emit_mod, emit_mod))
                   if emit_mod else ''))
    if res.violated:
        st = res.trace[-1]['vars'] if res.trace else {}
        raise MachineryError('Scoping.tla: Design violates Reference by an unnamed mechanism (%s); replay the '
                             'program on the real code and either fix the model or record the finding:\n%s'
                             % (res.violated, json.dumps(st, default=str)[:1500]))
    if res.distinct < min_states:
        raise MachineryError('vacuity: only %d states in %s' % (res.distinct, name))
    part = emitted(res, name) if emit_mod else []
    ctx.log('exhaustive %s: %d states %.0fs, %d cases emitted' % (name, res.distinct, res.wall, len(part)))
    return part


def run(ctx):
    quick = ctx.quick
    if ctx.replay:
        rp = ctx.replay['replay']
        o = observe1({'prog': rp['prog'], 'sc': rp['sc'], 'seed': rp['seed']})
        v = validate(ctx, [to_trace(o)], 'replay')
        judge(ctx, [o], v, 'replay')
        ctx.sample({'source': o['src'], 'goto': o.get('goto')})
        return None

    # 1. Design |= Reference, exhaustive; 2a. the same runs emit slices of their programs
    cs = []
    if quick:
        cs += exhaustive(ctx, 'all', 2, 4, 2, ALL, 100000, 23)
        cs += exhaustive(ctx, 'core', 2, 5, 2, CORE, 200000, 61)
    else:
        cs += exhaustive(ctx, 'all', 2, 5, 3, ALL, 3000000, 211, 5)
        cs += exhaustive(ctx, 'mid', 2, 5, 3, MID, 1000000, 101, 5)
        cs += exhaustive(ctx, 'core', 2, 6, 3, CORE, 5000000, 401, 11)
    ctx.coverage['exhaustive'] = True

    # 1b. the deviations are reachable in the Design and reproduce on the real code
    cfg = write_cfg(ctx, 'strict.cfg', 2, 5, 2, CORE, tail='INVARIANT DesignOKStrict')
    res = run_tlc('Scoping', cfg, workers=16, timeout=3000, expect_violation=True)
    ctx.add_tlc(res, 'deviation reachability (DesignOKStrict must be violated)')
    if not res.violated:
        raise MachineryError('DesignOKStrict holds: the modelled deviations are unreachable (model no longer '
                             'describes the code, or the defects were fixed: update Scoping.tla)')
    st = res.trace[-1]['vars']
    o = observe1({'prog': st['prog'], 'sc': st['sc'], 'seed': 0})
    v = validate(ctx, [to_trace(o)], 'TLC counterexample replayed on the code')
    if not any(v[0]['rejects']):
        ctx.drift({'origin': 'counterexample', 'source': o['src'], 'note': 'design deviation not reproduced'})
    judge(ctx, [o], v, 'tlc-counterexample')
    ctx.coverage['counterexample'] = {'source': o['src'], 'verdict': v[0]['rejects']}

    # 2b. beyond the exhaustive bounds: programs from TLC simulation
    sims = [('all', 3, 9, 4, ALL, 500)] if quick else [('all', 3, 10, 4, ALL, 9000), ('mid', 3, 12, 4, MID, 5000)]
    for (name, nn, mi, md, feat, k) in sims:
        cfg = write_cfg(ctx, 'sim_%s.cfg' % name, nn, mi, md, feat, 1, 0, 'CONSTRAINT Emit')
        res = run_tlc('Scoping', cfg, workers=1, timeout=3000, simulate='num=%d' % k, depth=60, seed=ctx.seed + 1)
        ctx.add_tlc(res, 'case emission %s by simulation of %d behaviours NNames=%d MaxItems=%d MaxDepth=%d'
                    % (name, k, nn, mi, md))
        part = emitted(res, 'sim ' + name)
        ctx.log('emitted %d cases (simulation %s), %d states, %.0fs' % (len(part), name, res.distinct, res.wall))
        cs += part
    seen = set()
    cs = [c for c in cs if not (json.dumps([c['prog'], c['sc']]) in seen or seen.add(json.dumps([c['prog'], c['sc']])))]
    if len(cs) < 1000:
        raise MachineryError('too few cases emitted: %d' % len(cs))
    for k, c in enumerate(cs):
        c['seed'] = ctx.seed + k
    obs = jutil.pmap(observe, cs)
    jutil.check_worker_errors(obs)
    good = []
    blocked = {}
    variants = set()
    for c, o in zip(cs, obs):
        ctx.count('replayed')
        if 'syntax' in o:
            raise MachineryError('Valid program of the spec does not compile (%s):\n%s' % (o['syntax'], o['src']))
        if 'exc' in o:
            blocked[o['exc']] = blocked.get(o['exc'], 0) + 1      # totality is property C01
            continue
        variants |= set(o['variants'])
        # Reference ~ CPython and Design ~ code, compared here; the property is judged by TLC below
        for u in c['uses']:
            ctx.count('uses_replayed')
            if o['obs'].get(u['i'], []):
                ctx.count('uses_executed')
            if o['obs'].get(u['i'], []) != u['obs']:
                raise MachineryError('execution model of Scoping.tla disagrees with CPython on use %d: spec %s, '
                                     'CPython %s\n%s' % (u['i'], u['obs'], o['obs'].get(u['i']), o['src']))
        have = dict(((s, n), cl) for s, n, cl in o['cls'])
        for rec in c['cls']:
            for n, cl in enumerate(rec['c'], 1):
                if (rec['s'], n) in have and have[(rec['s'], n)] != cl:
                    raise MachineryError('symbol table of Scoping.tla disagrees with CPython symtable: scope %d '
                                         'name %d spec %s CPython %s\n%s' % (rec['s'], n, cl, have[(rec['s'], n)], o['src']))
                if (rec['s'], n) in have:
                    ctx.count('symtable_entries_checked')
        good.append(o)
        ctx.sample({'source': o['src'], 'uses': [{'item': u['i'], 'observed': u['obs'], 'design_goto': u['goto'],
                                                  'code_goto': o['goto'][u['i']], 'landings': u['land'],
                                                  'verdict': u['verdict']} for u in c['uses']]})
    ctx.coverage['binding_syntaxes_rendered'] = sorted(variants)
    ctx.log('replayed %d cases; validating with Trace_Scoping' % len(good))
    vs = validate(ctx, [to_trace(o) for o in good], 'Trace_Scoping on replayed cases')
    judge(ctx, good, vs, 'emitted')

    # 3. larger random programs (code -> spec)
    nrand = 60 if quick else 1500
    ctx.log('random programs: %d' % nrand)
    robs = jutil.pmap(random_case, [(ctx.seed * 100003 + k, ctx.rng.randint(12, 40), 4) for k in range(nrand)])
    jutil.check_worker_errors(robs)
    rgood = []
    for o in robs:
        ctx.count('random_programs')
        ctx.count('random_candidates_rejected_by_compile', o['tried'] - 1)
        if 'exc' in o:
            blocked[o['exc']] = blocked.get(o['exc'], 0) + 1
            continue
        ctx.count('random_uses', len(o['goto']))
        ctx.count('random_uses_executed', sum(1 for u in o['goto'] if o['obs'].get(u)))
        rgood.append(o)
    rv = validate(ctx, [to_trace(o) for o in rgood], 'Trace_Scoping on random programs')
    judge(ctx, rgood, rv, 'random')
    ctx.coverage['traces_validated_against_impl'] = len(good) + len(rgood) + 1
    ctx.coverage['goto_calls_blocked_by_internal_errors'] = blocked
    if ctx.coverage.get('uses_executed', 0) < 1000 or ctx.coverage.get('random_uses_executed', 0) < 100:
        raise MachineryError('vacuity: too few executed uses judged (%s emitted, %s random)'
                             % (ctx.coverage.get('uses_executed'), ctx.coverage.get('random_uses_executed')))

    # 4. binding self-test: corrupted records must be rejected
    base = None
    for o in good:
        us = [u for u in o['goto'] if o['obs'].get(u) and o['goto'][u] == o['obs'][u]]
        others = [i + 1 for i, it in enumerate(o['prog']) if it['t'] == 'bind' and it['n']
                  and us and it['n'] != o['prog'][us[0] - 1]['n']]
        if us and others:
            base = (o, us[0], others[0])
            break
    if base is None:
        raise MachineryError('binding self-test: no suitable recorded case')
    o, u, other = base
    t1 = to_trace(o)
    for ev in t1:
        if ev['k'] == 'use' and ev['i'] == u:
            ev['goto'] = [other]            # landing on a binding of another identifier
    t2 = to_trace(o)
    for ev in t2:
        if ev['k'] == 'use' and ev['i'] == u:
            ev['obs'] = []                  # claim the use was not executed
    sv = validate(ctx, [t1, t2], 'binding self-test')
    w1 = [w for (_, w) in sv[0]['rejects']]
    w2 = [w for (_, w) in sv[1]['rejects']]
    if not any('scope' in w or 'exact' in w for w in w1) or not any('Observed' in w for w in w2):
        raise MachineryError('binding self-test: corrupted traces accepted: %s %s' % (w1, w2))
    ctx.coverage['binding_selftest'] = 'corrupted records rejected: %s %s' % (w1, w2)

    ctx.assumptions += [
        'every function/lambda is called once immediately after its definition, so execution order is textual '
        'order (except inside comprehensions and the loop); closures never escape',
        'CPython 3.12 merges comprehension symbols into the enclosing block (PEP 709): names also mentioned in '
        'a nested comprehension are validated by execution only, not by symtable',
        'a class-local name consults the class namespace and the globals (LOAD_NAME): landings in either are allowed',
        'empty goto results are allowed by the scope clause, not by the exactness clause',
        'CPython 3.12.1 mis-executes (UnboundLocalError) comprehensions in a function that read a global/free '
        'name which another comprehension of the same function uses as iteration variable (PEP 709 inlining '
        'bug): programs of that shape (Hazard in Scoping.tla) are model-checked but not replayed/judged']
    return None
