"""C12 worker: materialise one decision-table case, run every query and refactoring on a buffer importing
the module, and report what ran.  argv: cases.json out.json   (fresh process, JEDI_VERIF hooks on)"""
import json
import os
import py_compile
import shutil
import sys
import tempfile

HERE = os.path.dirname(os.path.dirname(os.path.abspath(__file__)))
sys.path.insert(0, HERE)
REPO = os.environ.get('VERIF_REPO', '/repo')
sys.path.insert(0, REPO)
if os.environ.get('C12_ENVDIR'):
    # the environment location comes first: /repo itself has a conftest.py and a setup.py that would shadow the case's module
    sys.path.insert(0, os.environ['C12_ENVDIR'])
os.environ['JEDI_VERIF'] = '1'

SENT = "import os as _o\n_f = open(_o.environ.get('C12_SENTINEL', '/dev/null'), 'a'); _f.write(%r + '\\n'); _f.close()\n"
MAGIC = ['conftest', 'setup', 'sitecustomize', 'usercustomize']

EXT_C = r'''
#include <Python.h>
#include <stdio.h>
#include <stdlib.h>
static struct PyModuleDef m = {PyModuleDef_HEAD_INIT, "%(name)s", 0, -1, 0};
PyMODINIT_FUNC PyInit_%(name)s(void) {
    const char *p = getenv("C12_SENTINEL");
    if (p) { FILE *f = fopen(p, "a"); if (f) { fputs("ext:%(name)s\n", f); fclose(f); } }
    return PyModule_Create(&m);
}
'''


def build_ext(name, outdir):
    import sysconfig
    inc = sysconfig.get_paths()['include']
    suffix = sysconfig.get_config_var('EXT_SUFFIX')
    src = os.path.join(outdir, name + '.c')
    with open(src, 'w') as f:
        f.write(EXT_C % {'name': name})
    so = os.path.join(outdir, name + suffix)
    rc = os.system('gcc -shared -fPIC -O0 -I%s %s -o %s 2>/dev/null' % (inc, src, so))
    os.unlink(src)
    return so if rc == 0 and os.path.exists(so) else None


def modname(case, i):
    # (the interpreter itself imports sitecustomize/usercustomize of its own environment at start-up)
    magic = MAGIC[:2] if case['loc'] == 'env' else MAGIC
    return {'plain': 'modplain_zz', 'auto': 'gi', 'magic': magic[i % len(magic)]}[case['nm']]


def materialise(case, root, i, extcache):
    proj = os.path.join(root, 'proj')
    added = os.path.join(root, 'added')
    envdir = os.environ['C12_ENVDIR']
    other = os.path.join(root, 'other')
    for d in (proj, added, other):
        os.makedirs(d, exist_ok=True)
    name = modname(case, i)
    base = {'project': proj, 'added': added, 'env': envdir}[case['loc']]
    k = case['kind']
    tag = '%s:%s' % (k, name)
    if k == 'source':
        with open(os.path.join(base, name + '.py'), 'w') as f:
            f.write(SENT % tag + 'value_zz = 1\n')
    elif k == 'package':
        os.makedirs(os.path.join(base, name), exist_ok=True)
        with open(os.path.join(base, name, '__init__.py'), 'w') as f:
            f.write(SENT % tag + 'value_zz = 1\n')
    elif k == 'namespace':
        os.makedirs(os.path.join(base, name), exist_ok=True)
        with open(os.path.join(base, name, 'inner_zz.py'), 'w') as f:
            f.write(SENT % tag + 'value_zz = 1\n')
    elif k == 'sourceless':
        tmp = os.path.join(root, name + '_src.py')
        with open(tmp, 'w') as f:
            f.write(SENT % tag + 'value_zz = 1\n')
        py_compile.compile(tmp, cfile=os.path.join(base, name + '.pyc'), doraise=True)
        os.unlink(tmp)
    elif k == 'extension':
        so = extcache.get(name)
        if so is None:
            return None
        shutil.copy(so, os.path.join(base, os.path.basename(so)))
    # a *.pth file and the other magic files are always present in the project, all with side effects
    with open(os.path.join(proj, 'evil_zz.pth'), 'w') as f:
        f.write("import os; open(os.environ.get('C12_SENTINEL', '/dev/null'), 'a').write('pth\\n')\n")
    for mg in MAGIC:
        p = os.path.join(proj, mg + '.py')
        if mg != name and not os.path.exists(p) and not os.path.exists(os.path.join(proj, mg)):
            with open(p, 'w') as f:
                f.write(SENT % ('bystander:' + mg))
    return {'proj': proj, 'added': added, 'other': other, 'name': name, 'base': base}


def host_state():
    return {'path': list(sys.path), 'modules': sorted(sys.modules), 'cwd': os.getcwd(),
            'environ': dict(os.environ)}


def run_case(case, i, extcache):
    import jedi
    from jedi.api.environment import SameEnvironment
    root = tempfile.mkdtemp(prefix='c12_', dir=os.environ['C12_TMP'])
    sentinel = os.path.join(root, 'sentinel.txt')
    open(sentinel, 'w').close()
    os.environ['C12_SENTINEL'] = sentinel
    trace = os.path.join(root, 'trace.ndjson')
    os.environ['JEDI_VERIF_TRACE'] = trace
    for modn in ['modplain_zz', 'gi'] + MAGIC:       # in-process rows import into THIS process: forget earlier cases
        for k in [k for k in sys.modules if k == modn or k.startswith(modn + '.')]:
            if getattr(sys.modules[k], '__file__', None) and os.environ['C12_TMP'] in str(sys.modules[k].__file__):
                del sys.modules[k]
    import importlib
    importlib.invalidate_caches()
    m = materialise(case, root, i, extcache)
    if m is None:
        shutil.rmtree(root, True)
        return {'case': case, 'skipped': 'no compiler for extension modules'}
    kw = {'smart_sys_path': case['smart'], 'load_unsafe_extensions': case['unsafe'], 'added_sys_path': [m['added']]}
    if case['syspath'] == 'explicit_with_project':
        kw['sys_path'] = [m['proj'], m['other']]
    elif case['syspath'] == 'explicit_without_project':
        kw['sys_path'] = [m['other']]
    proj = jedi.Project(m['proj'], **kw)
    if case.get('envkind') == 'inprocess':
        from jedi.api.environment import InterpreterEnvironment
        env = InterpreterEnvironment()   # finders and imports run in THIS process: the host state checks cover them
    else:
        env = SameEnvironment()      # a fresh helper per case (inherits C12_SENTINEL and PYTHONPATH incl. the env dir)
    name = m['name']
    src = ('import %s\nfrom %s import *\nfrom %s import value_zz as alias_zz\n%s.\nalias_zz\nvalue_zz\nimport pytest\n'
           'import dependency_not_installed_zz\ndependency_not_installed_zz\nimport gi\ngi\n') % (name, name, name, name)
    path = os.path.join(m['proj'], 'main_buf_zz.py')
    outcomes = {}
    # warm-up on an unrelated buffer so that jedi's own lazy imports are not mistaken for a change of host state
    w = jedi.Script('import os\nos.\nx = 1\nx\n', path=os.path.join(m['other'], 'w.py'), project=jedi.Project(m['other']), environment=env)
    for meth, l, c in [('complete', 2, 3), ('infer', 4, 1), ('goto', 4, 1), ('help', 4, 1), ('get_references', 4, 1), ('get_signatures', 2, 3)]:
        try:
            getattr(w, meth)(l, c)
        except Exception:  # noqa
            pass
    before = host_state()
    s = jedi.Script(src, path=path, project=proj, environment=env)
    calls = [('complete', 4, len(name) + 1), ('infer', 1, 8), ('goto', 1, 8), ('infer', 5, 3), ('goto', 5, 3), ('infer', 6, 3),
             ('help', 1, 8), ('get_references', 5, 3), ('get_signatures', 4, 2), ('get_context', 5, 1), ('complete', 7, 13),
             ('infer', 9, 5), ('goto', 8, 10), ('infer', 11, 1), ('goto', 10, 8)]
    for meth, l, c in calls:
        try:
            r = getattr(s, meth)(l, c)
            if meth != 'get_context':
                for x in r[:5]:
                    x.docstring()
                    x.type
                    if hasattr(type(x), 'infer'):
                        x.infer()
            outcomes['%s@%d' % (meth, l)] = 'ok'
        except Exception as e:  # noqa
            outcomes['%s@%d' % (meth, l)] = type(e).__name__
    for meth, kwargs in [('get_names', {}), ('get_syntax_errors', {})]:
        try:
            getattr(s, meth)(**kwargs)
        except Exception:  # noqa
            pass
    try:
        list(s.search(name))
        list(proj.search(name))
        list(proj.complete_search('val'))
    except Exception as e:  # noqa
        outcomes['search'] = type(e).__name__
    for meth, args, kwargs in [('rename', (5, 3), {'new_name': 'renamed_zz'}), ('inline', (5, 3), {}),
                               ('extract_variable', (5, 0), {'new_name': 'ev_zz'}), ('rename', (1, 8), {'new_name': 'mod_renamed_zz'})]:
        try:
            ref = getattr(s, meth)(*args, **kwargs)
            ref.get_diff()
        except Exception as e:  # noqa
            outcomes[meth] = type(e).__name__
    after = host_state()
    with open(sentinel) as f:
        sent = [x for x in f.read().split('\n') if x]
    execs = []
    d = os.path.dirname(trace)
    for fn in os.listdir(d):
        if fn.startswith('trace.ndjson'):
            with open(os.path.join(d, fn)) as f:
                for line in f:
                    e = json.loads(line)
                    if e['ev'].startswith('ExecImport'):
                        execs.append({'ev': e['ev'], 'dotted': e.get('dotted'), 'helper': e.get('helper'),
                                      'has_project': any(str(p).startswith(root) and not str(p).startswith(os.environ['C12_ENVDIR'])
                                                         for p in e.get('sys_path', []))})
    newmods = [x for x in after['modules'] if x not in set(before['modules'])]
    import importlib
    proj_mods = []
    for x in newmods:
        f = getattr(sys.modules.get(x), '__file__', None) or ''
        if f.startswith(root):
            proj_mods.append(x)
    res = {'case': case, 'name': name, 'sentinel': sent,
           'target_executed': any(x.split(':', 1)[-1] == name or x == 'ext:' + name for x in sent if not x.startswith('bystander')),
           'bystander_executed': [x for x in sent if x.startswith('bystander') or x == 'pth'],
           'execs': execs,
           'host': {'path': before['path'] == after['path'], 'cwd': before['cwd'] == after['cwd'],
                    'environ': before['environ'] == after['environ'], 'project_modules_imported': proj_mods,
                    'new_modules': newmods[:10]},
           'outcomes': outcomes}
    del s, w, env
    shutil.rmtree(root, True)
    return res


def main():
    if sys.argv[1] == '--build-ext':
        os.makedirs(sys.argv[2], exist_ok=True)
        for n in ['modplain_zz', 'gi'] + MAGIC:
            build_ext(n, sys.argv[2])
        return
    os.environ.setdefault('VERIF_CACHE_BASE', os.environ['C12_TMP'])
    from harness.core import private_cache
    private_cache()
    cases = json.load(open(sys.argv[1]))
    envdir = os.environ['C12_ENVDIR']
    extcache = {}
    extdir = os.environ.get('C12_EXTDIR') or tempfile.mkdtemp(prefix='c12ext_', dir=os.environ['C12_TMP'])
    import sysconfig
    for n in ['modplain_zz', 'gi'] + MAGIC:       # compiled once per check run (C12_EXTDIR), reused by every worker
        so = os.path.join(extdir, n + sysconfig.get_config_var('EXT_SUFFIX'))
        extcache[n] = so if os.path.exists(so) else build_ext(n, extdir)
    out = []
    for i, c in enumerate(cases):
        # the env location is shared by all cases of this worker: keep it clean
        for fn in os.listdir(envdir):
            p = os.path.join(envdir, fn)
            shutil.rmtree(p, True) if os.path.isdir(p) else os.unlink(p)
        try:
            out.append(run_case(c, c.get('idx', i), extcache))
        except Exception as e:  # noqa
            import traceback
            out.append({'case': c, '_worker_error': '%s: %s\n%s' % (type(e).__name__, e, traceback.format_exc()[-1500:])})
    json.dump(out, open(sys.argv[2], 'w'))


if __name__ == '__main__':
    main()
