"""Recorder for the inference engine's guards (no change to /repo): wraps
ExecutionRecursionDetector.push_execution/pop_execution, recursion.execution_allowed and
syntax_tree._infer_node.  Best effort: if a target disappears the event kind is dropped."""
import contextlib
import sys

EVENTS = []
STATE = {'steps': 0, 'frames': 0, 'on': False, 'ids': {}, 'missing': []}


def _id(obj):
    d = STATE['ids']
    k = id(obj)
    if k not in d:
        d[k] = len(d) + 1
    return d[k]


def _depth():
    f = sys._getframe()
    n = 0
    while f is not None:
        n += 1
        f = f.f_back
    return n


def install():
    if STATE.get('installed'):
        return
    STATE['installed'] = True
    from jedi.inference import recursion, syntax_tree
    det = getattr(recursion, 'ExecutionRecursionDetector', None)
    if det is not None and hasattr(det, 'push_execution'):
        orig_push, orig_pop = det.push_execution, det.pop_execution

        def push_execution(self, execution):
            r = orig_push(self, execution)
            if STATE['on']:
                try:
                    mc = execution.get_root_context()
                    b = bool(mc.is_builtins_module())
                    t = mc.py__name__() == 'typing'
                except Exception:  # noqa
                    b, t = False, False
                EVENTS.append({'ev': 'Push', 'f': _id(execution.tree_node), 'builtins': b, 'typing': t, 'reached': bool(r)})
            return r

        def pop_execution(self):
            if STATE['on']:
                EVENTS.append({'ev': 'Pop'})
            return orig_pop(self)
        det.push_execution, det.pop_execution = push_execution, pop_execution
    else:
        STATE['missing'].append('ExecutionRecursionDetector')
    if hasattr(recursion, 'execution_allowed'):
        orig_allowed = recursion.execution_allowed

        @contextlib.contextmanager
        def execution_allowed(inference_state, node):
            with orig_allowed(inference_state, node) as allowed:
                if STATE['on']:
                    EVENTS.append({'ev': 'SEnter', 'allowed': bool(allowed), 'n': _id(node)})
                try:
                    yield allowed
                finally:
                    if STATE['on']:
                        EVENTS.append({'ev': 'SExit'})
        recursion.execution_allowed = execution_allowed
        try:
            from jedi.inference import flow_analysis
            if getattr(flow_analysis, 'execution_allowed', None) is orig_allowed:
                flow_analysis.execution_allowed = execution_allowed
        except ImportError:
            pass
    else:
        STATE['missing'].append('execution_allowed')
    if hasattr(syntax_tree, '_infer_node'):
        orig_infer = syntax_tree._infer_node

        def _infer_node(context, element):
            if STATE['on']:
                STATE['steps'] += 1
                if STATE['steps'] % 64 == 0:
                    STATE['frames'] = max(STATE['frames'], _depth())
            return orig_infer(context, element)
        syntax_tree._infer_node = _infer_node
    else:
        STATE['missing'].append('_infer_node')


def query(fn):
    """Run one Script query under the recorder; returns (result or exception, events)."""
    del EVENTS[:]
    STATE.update(steps=0, frames=0, on=True)
    EVENTS.append({'ev': 'QStart'})
    try:
        try:
            r = ('ok', fn())
        except Exception as e:  # noqa
            r = ('exc', e)
    finally:
        STATE['on'] = False
    EVENTS.append({'ev': 'QEnd', 'steps': STATE['steps'], 'frames': STATE['frames']})
    evs = [full(e) for e in EVENTS]
    return r, evs, STATE['steps']


def full(e):
    return {'ev': e['ev'], 'f': e.get('f', 0), 'builtins': e.get('builtins', False), 'typing': e.get('typing', False),
            'reached': e.get('reached', False), 'allowed': e.get('allowed', False), 'n': e.get('n', 0),
            'steps': e.get('steps', 0), 'frames': e.get('frames', 0), 'key': e.get('key', 0), 'val': e.get('val', 0)}
