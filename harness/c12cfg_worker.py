"""C12 / ProjConfig.tla worker: one case of the session-start table per FRESH process (the default environment and
the default project are cached per process).  argv: case.json out.json"""
import json
import os
import shutil
import stat
import sys
import tempfile

HERE = os.path.dirname(os.path.dirname(os.path.abspath(__file__)))
sys.path.insert(0, HERE)
REPO = os.environ.get('VERIF_REPO', '/repo')
sys.path.insert(0, REPO)


def main():
    case = json.load(open(sys.argv[1]))
    os.environ.setdefault('VERIF_CACHE_BASE', os.environ['C12_TMP'])
    from harness.core import private_cache
    private_cache()
    from harness.c12_worker import build_ext
    root = tempfile.mkdtemp(prefix='c12cfg_', dir=os.environ['C12_TMP'])
    tree = os.path.join(root, 'tree')
    os.makedirs(os.path.join(tree, 'pkg'))
    sentinel = os.path.join(root, 'sentinel.txt')
    open(sentinel, 'w').close()
    os.environ['C12_SENTINEL'] = sentinel
    open(os.path.join(tree, 'setup.py'), 'w').write(
        "import os\nopen(os.environ.get('C12_SENTINEL', '/dev/null'), 'a').write('setup.py\\n')\n")
    exe = os.path.join(tree, 'tools', 'python_zz')
    os.makedirs(os.path.dirname(exe))
    with open(exe, 'w') as f:       # an "interpreter" shipped by the tree: records that it ran, then behaves like one
        f.write('#!/bin/sh\necho interpreter >> "%s"\nexec "%s" "$@"\n' % (sentinel, sys.executable))
    os.chmod(exe, os.stat(exe).st_mode | stat.S_IXUSR | stat.S_IXGRP | stat.S_IXOTH)
    if case['cfg'] == 'present':
        os.makedirs(os.path.join(tree, '.jedi'))
        data = {'path': tree, 'load_unsafe_extensions': bool(case['cfgunsafe'])}
        if case['cfgenv'] == 'tree_exe':
            data['environment_path'] = exe
        elif case['cfgenv'] == 'known_exe':
            data['environment_path'] = sys.executable
        with open(os.path.join(tree, '.jedi', 'project.json'), 'w') as f:
            json.dump([1, data], f)
    name = 'extmod_zz'
    built = True
    if case['ext']:
        built = build_ext(name, tree) is not None
    import jedi
    from jedi.api.environment import SameEnvironment
    kw = {}
    if case['projarg'] == 'explicit':
        kw['project'] = jedi.Project(tree)
    if case['envarg'] == 'explicit':
        kw['environment'] = SameEnvironment()
    src = 'import %s\n%s.\nimport json\njson.\n' % (name, name)
    outcomes = {}
    try:
        s = jedi.Script(src, path=os.path.join(tree, 'pkg', 'main_zz.py'), **kw)
        for meth, l, c in [('complete', 2, len(name) + 1), ('infer', 1, 8), ('goto', 1, 8), ('complete', 4, 5), ('help', 3, 8),
                           ('get_signatures', 4, 5), ('get_references', 1, 8)]:
            try:
                r = getattr(s, meth)(l, c)
                for x in r[:3]:
                    x.docstring()
                outcomes['%s@%d' % (meth, l)] = 'ok'
            except Exception as e:  # noqa
                outcomes['%s@%d' % (meth, l)] = type(e).__name__
        loaded_unsafe = bool(s._inference_state.project.load_unsafe_extensions)
        interp = getattr(getattr(s._inference_state, 'environment', None), 'executable', None)
    except Exception as e:  # noqa
        outcomes['Script'] = type(e).__name__
        loaded_unsafe, interp = False, None
    with open(sentinel) as f:
        sent = sorted(set(x for x in f.read().split('\n') if x))
    res = {'case': case, 'ran': sent, 'outcomes': outcomes, 'unsafe_effective': loaded_unsafe,
           'interpreter': ('tree_exe' if interp == exe else ('host' if interp else 'none')), 'ext_built': built}
    shutil.rmtree(root, True)
    json.dump(res, open(sys.argv[2], 'w'))


if __name__ == '__main__':
    main()
