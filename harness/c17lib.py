"""C17 helpers: CPython-side oracle (tokenize + ast) for identifier tokens and binding
tokens, corpus re-encoders, observation of a jedi Name.  TLC decides; this only renders,
projects and supplies ground truth (BUILDING.md)."""
import ast
import io
import keyword
import re
import tokenize

EOL_RE = re.compile(r'\r\n|\r|\n')


def norm_eol(src):
    """Universal-newline translation (what CPython's tokenizer does to its input);
    keeps (line, column) of every token."""
    return EOL_RE.sub('\n', src)


class Unsupported(Exception):
    """Source uses syntax outside the oracle's / parso's subset (match, type, PEP 695)."""


def ident_tokens(src):
    """[(line, col_in_code_points, text)] of the identifier tokens (NAME, not keyword) per
    CPython's tokenizer.  Soft keywords are refused (Unsupported) when used as keywords."""
    out = []
    toks = list(tokenize.generate_tokens(io.StringIO(norm_eol(src), newline='').readline))
    for t in toks:
        if t.type == tokenize.NAME and not keyword.iskeyword(t.string):
            out.append((t.start[0], t.start[1], t.string))
    return out, toks


def _b2c(lines, lineno, bcol):
    """ast byte column -> code point column."""
    return len(lines[lineno - 1].encode('utf-8')[:bcol].decode('utf-8'))


def binding_positions(src):
    """Set of (line, col) of the identifier tokens that bind, per CPython: `ast` Store/Del
    contexts (Name, Attribute), def/class names, parameters, import aliases (asname, else first
    component / imported name), except-as names.  Language reference 4.2.1; global/nonlocal
    declare, they do not bind."""
    n = norm_eol(src)
    tree = ast.parse(n)
    lines = n.split('\n')
    ids, toks = ident_tokens(src)
    names = [t for t in toks if t.type == tokenize.NAME]
    by_start = {t.start: t for t in names}
    by_end = {t.end: t for t in names}

    def pos(node, end=False):
        if end:
            return (node.end_lineno, _b2c(lines, node.end_lineno, node.end_col_offset))
        return (node.lineno, _b2c(lines, node.lineno, node.col_offset))

    def toks_from(p):
        return [t for t in names if t.start >= p]

    binds = set()
    for node in ast.walk(tree):
        if isinstance(node, (ast.Match, getattr(ast, 'TypeAlias', ()), getattr(ast, 'TypeVar', ()))):
            raise Unsupported(type(node).__name__)
        if isinstance(node, ast.Name) and isinstance(node.ctx, (ast.Store, ast.Del)):
            binds.add(pos(node))
        elif isinstance(node, ast.Attribute) and isinstance(node.ctx, (ast.Store, ast.Del)):
            t = by_end[pos(node, end=True)]
            assert t.string == node.attr
            binds.add(t.start)
        elif isinstance(node, (ast.FunctionDef, ast.AsyncFunctionDef, ast.ClassDef)):
            ts = toks_from(pos(node))
            i = 0
            while ts[i].string in ('async', 'def', 'class'):
                i += 1
            assert ts[i].string == node.name, (ts[i], node.name)
            binds.add(ts[i].start)
        elif isinstance(node, ast.arg):
            assert by_start[pos(node)].string == node.arg
            binds.add(pos(node))
        elif isinstance(node, ast.alias):
            if node.name == '*':
                continue
            ts = [t for t in names if pos(node) <= t.start and t.end <= pos(node, end=True)]
            if node.asname:
                assert ts[-1].string == node.asname
                binds.add(ts[-1].start)
            else:
                assert ts[0].string == node.name.split('.')[0]
                binds.add(ts[0].start)
        elif isinstance(node, ast.ExceptHandler) and node.name:
            start = pos(node.type, end=True)
            ts = toks_from(start)
            assert ts[0].string == 'as' and ts[1].string == node.name, ts[:2]
            binds.add(ts[1].start)
    idpos = set((l, c) for l, c, _ in ids)
    assert binds <= idpos, binds - idpos
    return binds, ids
