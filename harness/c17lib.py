"""C17 helpers: CPython-side oracle (tokenize + ast) for identifier tokens and binding
tokens, corpus re-encoders, observation of a jedi Name.  TLC decides; this only renders,
projects and supplies ground truth (BUILDING.md)."""
import ast
import io
import keyword
import re
import tokenize

EOL_RE = re.compile(r'\r\n|\r|\n')


def norm_eol(src):
    """Universal-newline translation (what CPython's tokenizer does to its input);
    keeps (line, column) of every token."""
    return EOL_RE.sub('\n', src)


class Unsupported(Exception):
    """Source uses syntax outside the oracle's / parso's subset (match, type, PEP 695)."""


def ident_tokens(src):
    """[(line, col_in_code_points, text)] of the identifier tokens (NAME, not keyword) per
    CPython's tokenizer.  Soft keywords are refused (Unsupported) when used as keywords."""
    out = []
    toks = list(tokenize.generate_tokens(io.StringIO(norm_eol(src), newline='').readline))
    for t in toks:
        if t.type == tokenize.NAME and not keyword.iskeyword(t.string):
            out.append((t.start[0], t.start[1], t.string))
    return out, toks


def _b2c(lines, lineno, bcol):
    """ast byte column -> code point column."""
    return len(lines[lineno - 1].encode('utf-8')[:bcol].decode('utf-8'))


def binding_positions(src):
    """Set of (line, col) of the identifier tokens that bind, per CPython: `ast` Store/Del
    contexts (Name, Attribute), def/class names, parameters, import aliases (asname, else first
    component / imported name), except-as names.  Language reference 4.2.1; global/nonlocal
    declare, they do not bind."""
    n = norm_eol(src)
    tree = ast.parse(n)
    lines = n.split('\n')
    ids, toks = ident_tokens(src)
    names = [t for t in toks if t.type == tokenize.NAME]
    by_start = {t.start: t for t in names}
    by_end = {t.end: t for t in names}

    def pos(node, end=False):
        if end:
            return (node.end_lineno, _b2c(lines, node.end_lineno, node.end_col_offset))
        return (node.lineno, _b2c(lines, node.lineno, node.col_offset))

    def toks_from(p):
        return [t for t in names if t.start >= p]

    binds = set()
    for node in ast.walk(tree):
        if isinstance(node, (ast.Match, getattr(ast, 'TypeAlias', ()), getattr(ast, 'TypeVar', ()))):
            raise Unsupported(type(node).__name__)
        if isinstance(node, ast.Name) and isinstance(node.ctx, (ast.Store, ast.Del)):
            binds.add(pos(node))
        elif isinstance(node, ast.Attribute) and isinstance(node.ctx, (ast.Store, ast.Del)):
            t = by_end[pos(node, end=True)]
            assert t.string == node.attr
            binds.add(t.start)
        elif isinstance(node, (ast.FunctionDef, ast.AsyncFunctionDef, ast.ClassDef)):
            ts = toks_from(pos(node))
            i = 0
            while ts[i].string in ('async', 'def', 'class'):
                i += 1
            assert ts[i].string == node.name, (ts[i], node.name)
            binds.add(ts[i].start)
        elif isinstance(node, ast.arg):
            assert by_start[pos(node)].string == node.arg
            binds.add(pos(node))
        elif isinstance(node, ast.alias):
            if node.name == '*':
                continue
            ts = [t for t in names if pos(node) <= t.start and t.end <= pos(node, end=True)]
            if node.asname:
                assert ts[-1].string == node.asname
                binds.add(ts[-1].start)
            else:
                assert ts[0].string == node.name.split('.')[0]
                binds.add(ts[0].start)
        elif isinstance(node, ast.ExceptHandler) and node.name:
            start = pos(node.type, end=True)
            ts = toks_from(start)
            assert ts[0].string == 'as' and ts[1].string == node.name, ts[:2]
            binds.add(ts[1].start)
    idpos = set((l, c) for l, c, _ in ids)
    assert binds <= idpos, binds - idpos
    return binds, ids


# ---------------------------------------------------------------- Reference-side line table (claimed; TLC verifies it)
def line_starts(text):
    """0-based offsets at which a physical line starts (\\n, \\r\\n, \\r end a line)."""
    out = [0]
    for m in EOL_RE.finditer(text):
        out.append(m.end())
    return out


# ---------------------------------------------------------------- observing one jedi Name
def shape_of(n):
    """Shape key of a reported name: class of the internal name (+ value wrapper), whether its
    token lives in another tree than the module it claims, dunder parameter."""
    nm = n._name
    sh = type(nm).__name__
    v = getattr(nm, '_value', None)
    if v is not None:
        sh += '/' + type(v).__name__
    tn = nm.tree_name
    try:
        if tn.get_root_node() is not nm.get_root_context().tree_node:
            sh = 'foreign-tree:' + sh
    except Exception:  # noqa
        pass
    try:
        d = tn.get_definition()
        if d is not None and d.type == 'param' and d.name is tn and tn.value.startswith('__'):
            sh = 'dunder-param'
    except Exception:  # noqa
        pass
    return sh


def observe(n):
    """-> ('rec', record, meta) | ('skip', reason).  Exceptions propagate to the caller."""
    nm = n._name
    line, col = n.line, n.column
    if line is None:
        return ('skip', 'no-position')                 # compiled objects, keywords
    if getattr(nm, 'tree_name', None) is None:
        return ('skip', 'no-token:' + type(nm).__name__)   # whole-file (module) / anonymous (<lambda>) names
    mp = n.module_path
    if mp is None:
        return ('skip', 'no-path')                     # synthetic modules (namedtuple template), pathless
    ds = n.get_definition_start_position()
    de = n.get_definition_end_position()
    rec = {'ev': 'name', 'line': line, 'col': col, 'name': [ord(c) for c in n.name],
           'ds': [list(ds)] if ds is not None else [], 'de': [list(de)] if de is not None else [],
           'lc': [ord(c) for c in n.get_line_code()],
           'exact': []}       # [v]: reported by the Script whose own buffer is version v of the file (set by the caller)
    return ('rec', rec, {'file': str(mp), 'shape': shape_of(n), 'name': n.name})


def files_header(order, versions):
    """The "files" event of a trace: order = paths in file-index order, versions = path -> [texts]
    (vers[0] exists when the trace starts; the others come into existence by write/buffer events)."""
    return {'ev': 'files', 'files': [{'vers': [{'text': [ord(c) for c in t], 'starts': line_starts(t)}
                                               for t in versions[p]]} for p in order]}


def has_error_nodes(module_node):
    """parso could not parse the source (syntax outside its grammar)."""
    stack = [module_node]
    while stack:
        n = stack.pop()
        if n.type == 'error_node':
            return True
        if n.type == 'error_leaf' and getattr(n, 'token_type', None) not in ('INDENT', 'DEDENT', 'ERROR_DEDENT'):
            return True        # (a form feed at line start makes parso emit a spurious INDENT error leaf)
        stack.extend(getattr(n, 'children', ()))
    return False


def error_nodes_follow_formfeed(module_node, text):
    """Some parso error node starts on a physical line that begins with a form feed (shape of
    DEV-FormFeedIndent; a decorator in front of such a def/class is dragged into an error node too).
    Only used for sources whose un-re-encoded original parso parses without error nodes."""
    starts = line_starts(text)
    stack = [module_node]
    while stack:
        n = stack.pop()
        if n.type == 'error_node':
            ln = n.get_first_leaf().start_pos[0]
            if text[starts[ln - 1]:starts[ln - 1] + 1] == '\f':
                return True
            continue
        stack.extend(getattr(n, 'children', ()))
    return False


def parso_anc(module_node):
    """[(line, col, [ancestor types nearest first, without file_input])] of all name leaves."""
    out = []
    leaf = module_node.get_first_leaf()
    while leaf is not None:
        if leaf.type == 'name':
            anc = []
            p = leaf.parent
            while p is not None and p.type != 'file_input':
                anc.append(p.type)
                p = p.parent
            out.append((leaf.start_pos[0], leaf.start_pos[1], anc))
        leaf = leaf.get_next_leaf()
    return out


# ---------------------------------------------------------------- corpus re-encoders
def _logical_line_first_tokens(toks):
    """tokens that start a logical line (first significant token after NEWLINE/NL/INDENT/DEDENT/start)."""
    first = []
    at_start = True
    depth = 0
    for t in toks:
        if t.type in (tokenize.INDENT, tokenize.DEDENT):
            continue
        if t.type in (tokenize.NL, tokenize.COMMENT):
            continue
        if t.type == tokenize.NEWLINE:
            at_start = True
            continue
        if t.type == tokenize.ENDMARKER:
            break
        if at_start:
            first.append(t)
            at_start = False
    return first


def reencode(src, rng, eol='\n', tabs=False, ff=0.0, cont=0.0, nofinal=False, mixed=False):
    """Re-encode LF source text: indentation tabs, form feeds before top-level statements,
    backslash continuations between tokens, line ends, missing final newline.
    Returns the new text or None if the result is not the same program."""
    lines = src.split('\n')
    toks = list(tokenize.generate_tokens(io.StringIO(src).readline))
    edits = []   # (line, col0, col1, replacement) on single lines, non-overlapping
    firsts = _logical_line_first_tokens(toks)
    if tabs:
        ok = all(t.start[1] % 4 == 0 and lines[t.start[0] - 1][:t.start[1]] == ' ' * t.start[1] for t in firsts)
        if ok:
            for t in firsts:
                if t.start[1]:
                    edits.append((t.start[0], 0, t.start[1], '\t' * (t.start[1] // 4)))
    if ff:
        for t in firsts:
            if t.start[1] == 0 and rng.random() < ff:
                edits.append((t.start[0], 0, 0, '\f'))
    if cont:
        depth = 0
        fdepth = 0
        prev = None
        for t in toks:
            if t.type == getattr(tokenize, 'FSTRING_START', -1):
                fdepth += 1
            if prev is not None and depth == 0 and fdepth == 0 and prev.end[0] == t.start[0] \
                    and prev.type not in (tokenize.INDENT, tokenize.DEDENT, tokenize.NEWLINE, tokenize.NL,
                                          tokenize.COMMENT) \
                    and t.type not in (tokenize.NEWLINE, tokenize.NL, tokenize.COMMENT, tokenize.ENDMARKER,
                                       tokenize.INDENT, tokenize.DEDENT) \
                    and prev.start[0] == prev.end[0] and rng.random() < cont:
                edits.append((t.start[0], prev.end[1], t.start[1], ' \\\n      '))
            if t.type == getattr(tokenize, 'FSTRING_END', -1):
                fdepth -= 1
            if t.type == tokenize.OP:
                if t.string in '([{':
                    depth += 1
                elif t.string in ')]}':
                    depth -= 1
            prev = t
    for (ln, c0, c1, rep) in sorted(edits, reverse=True):
        s = lines[ln - 1]
        lines[ln - 1] = s[:c0] + rep + s[c1:]
    new = '\n'.join(lines)
    if mixed:
        parts = new.split('\n')
        new = ''.join(p + rng.choice(['\n', '\r\n', '\r']) for p in parts[:-1]) + parts[-1]
    elif eol != '\n':
        new = new.replace('\n', eol)
    if nofinal:
        new = new.rstrip('\r\n')
    try:
        if ast.dump(ast.parse(norm_eol(new))) != ast.dump(ast.parse(src)):
            return None
    except (SyntaxError, ValueError):
        return None
    return new


def windows(src, maxlen, rng):
    """A run of complete top-level statements of at most maxlen code points (LF text)."""
    if len(src) <= maxlen:
        return src
    tree = ast.parse(src)
    lines = src.split('\n')
    spans = []
    for node in tree.body:
        lo = min([node.lineno] + [d.lineno for d in getattr(node, 'decorator_list', [])])
        spans.append((lo, node.end_lineno))
    if not spans:
        return None
    i = rng.randrange(len(spans))
    j = i
    def text(i, j):
        return '\n'.join(lines[spans[i][0] - 1:spans[j][1]]) + '\n'
    if len(text(i, i)) > maxlen:
        cands = [k for k in range(len(spans)) if len(text(k, k)) <= maxlen]
        if not cands:
            return None
        i = j = rng.choice(cands)
    while j + 1 < len(spans) and len(text(i, j + 1)) <= maxlen:
        j += 1
    while i > 0 and len(text(i - 1, j)) <= maxlen:
        i -= 1
    return text(i, j)
