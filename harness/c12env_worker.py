"""C12 / EnvSafe.tla worker: one row per FRESH process.  argv: case.json out.json"""
import json
import os
import shutil
import stat
import sys
import tempfile

HERE = os.path.dirname(os.path.dirname(os.path.abspath(__file__)))
sys.path.insert(0, HERE)
REPO = os.environ.get('VERIF_REPO', '/repo')
sys.path.insert(0, REPO)


def main():
    case = json.load(open(sys.argv[1]))
    os.environ.setdefault('VERIF_CACHE_BASE', os.environ['C12_TMP'])
    from harness.core import private_cache
    private_cache()
    root = tempfile.mkdtemp(prefix='c12env_', dir=os.environ['C12_TMP'])
    tree = os.path.join(root, 'tree')
    venv = os.path.join(tree, 'env_zz')
    os.makedirs(os.path.join(venv, 'bin'))
    os.makedirs(os.path.join(tree, 'src_zz'))          # another directory of the project: not an environment
    sentinel = os.path.join(root, 'sentinel.txt')
    open(sentinel, 'w').close()
    exe = os.path.join(venv, 'bin', 'python')
    if case['cand'] == 'symlink_system':
        os.symlink(case['system_python'], exe)
    elif case['cand'] == 'unknown':
        with open(exe, 'w') as f:       # what a repository can ship: an executable that is not a known interpreter
            f.write('#!/bin/sh\necho interpreter >> "%s"\nexec "%s" "$@"\n' % (sentinel, sys.executable))
        os.chmod(exe, os.stat(exe).st_mode | stat.S_IXUSR | stat.S_IXGRP | stat.S_IXOTH)
    import jedi
    from jedi.api.environment import InvalidPythonEnvironment
    outcome = 'none'
    try:
        if case['entry'] == 'find_virtualenvs':
            envs = list(jedi.find_virtualenvs([tree], safe=case['safe'], use_environment_vars=False))
            outcome = 'environment' if envs else 'skipped'
        elif case['entry'] == 'create_environment_dir':
            jedi.create_environment(venv, safe=case['safe'])
            outcome = 'environment'
        else:
            jedi.create_environment(exe, safe=case['safe'])
            outcome = 'environment'
    except InvalidPythonEnvironment:
        outcome = 'InvalidPythonEnvironment'
    except Exception as e:  # noqa
        outcome = 'other:' + type(e).__name__
    with open(sentinel) as f:
        ran = 'interpreter' in f.read()
    shutil.rmtree(root, True)
    json.dump({'case': case, 'outcome': outcome, 'sentinel_ran': ran, 'admin': os.geteuid() == 0}, open(sys.argv[2], 'w'))


if __name__ == '__main__':
    main()
