"""C16 worker: run queries in a fresh interpreter (its own PYTHONHASHSEED, optional allocation
perturbation) and print digests of the ordered results.  argv: jobs.json out.json perturb"""
import json
import os
import random
import sys
import zlib

HERE = os.path.dirname(os.path.dirname(os.path.abspath(__file__)))
sys.path.insert(0, HERE)
REPO = os.environ.get('VERIF_REPO', '/repo')
sys.path.insert(0, REPO)


def rep(x):
    """Everything observable of a result object that identifies it."""
    try:
        mp = str(x.module_path) if x.module_path else ''
    except Exception:  # noqa
        mp = '?'
    return [x.name, x.type, x.line, x.column, mp, x.description]


def digest(obj):
    return zlib.crc32(json.dumps(obj, sort_keys=True, default=str).encode()) & 0x7fffffff


def set_digest(r):
    """Order-insensitive digest of a result (to tell order-only differences from content differences)."""
    if r[0] != 'ok':
        return digest(r)
    return digest(sorted(json.dumps(x, sort_keys=True, default=str) for x in r[1]))


def elem_digests(r):
    """Digest of every element of an ok result (to tell 'fewer results' from 'other results')."""
    if r[0] != 'ok':
        return []
    return sorted(set(digest(json.dumps(x, sort_keys=True, default=str)) for x in r[1]))[:60]


STATE_SWITCHES = ('flow_analysis_enabled', 'allow_descriptor_getattr', 'dynamic_params_depth', 'is_analysis')


def switches(script):
    """Every process-wide setting and every per-Script switch that the code turns temporarily: observed after each
    query (Switch.tla: SwitchRestored)."""
    import jedi
    out = {}
    for k, v in vars(jedi.settings).items():
        if not k.startswith('_') and isinstance(v, (bool, int, float, str, list, tuple, type(None))):
            out['settings.' + k] = repr(v)
    st = script._inference_state
    for k in STATE_SWITCHES:
        if hasattr(st, k):
            out['state.' + k] = repr(getattr(st, k))
    return out


def run_query(s, m, line, col):
    try:
        if m == 'get_names':
            r = [rep(x) for x in s.get_names(all_scopes=True, definitions=True, references=True)]
        elif m == 'get_signatures':
            r = [[x.name, x.index, list(x.bracket_start), [p.to_string() for p in x.params]] for x in s.get_signatures(line, col)]
        elif m == 'get_context':
            c = s.get_context(line, col)
            r = [rep(c)]
        elif m == 'complete':
            r = [[x.name, x.complete, x.type] for x in s.complete(line, col)]
        elif m in ('goto', 'help'):
            # goto's order is unspecified, and help() is documented as goto plus keywords: compared as sets
            r = sorted(rep(x) for x in getattr(s, m)(line, col))
        else:
            r = [rep(x) for x in getattr(s, m)(line, col)]
        return ['ok', r]
    except Exception as e:  # noqa
        return ['exc', type(e).__name__]


def main():
    jobs = json.load(open(sys.argv[1]))
    perturb = int(sys.argv[3])
    if perturb:
        rnd = random.Random(perturb)
        junk = [object() for _ in range(rnd.randrange(1000, 50000))]     # shifts object addresses
        junk2 = [str(i) * 3 for i in range(rnd.randrange(10, 5000))]
        del junk2
    import jedi
    from harness.core import private_cache
    private_cache()
    from jedi.api.environment import SameEnvironment
    assert os.path.abspath(jedi.__file__).startswith(os.path.abspath(REPO) + os.sep)
    env = SameEnvironment()
    out = []
    for job in jobs:
        src, path = job['src'], job.get('path')
        proj = jedi.Project(job.get('project') or (os.path.dirname(path) if path else '/nonexistent_verif_c16'))
        res = []
        if job['mode'] == 'fresh':            # every query on its own Script
            for (m, line, col) in job['queries']:
                s = jedi.Script(src, path=path, project=proj, environment=env)
                sw0 = switches(s)
                r = run_query(s, m, line, col)
                sw1 = switches(s)
                res.append([digest(r), r[0], set_digest(r), elem_digests(r), sorted(k for k in sw0 if sw0[k] != sw1.get(k))])
        else:                                 # all queries, in this order, on ONE Script
            s = jedi.Script(src, path=path, project=proj, environment=env)
            sw0 = switches(s)
            for (m, line, col) in job['queries']:
                r = run_query(s, m, line, col)
                sw1 = switches(s)
                res.append([digest(r), r[0], set_digest(r), elem_digests(r), sorted(k for k in sw0 if sw0[k] != sw1.get(k))])
        out.append(res)
    json.dump(out, open(sys.argv[2], 'w'))


if __name__ == '__main__':
    main()
