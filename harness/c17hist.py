"""C17, the multi-file / multi-version dimension (spec/PositionsHist.tla): replay of TLC's histories
of (file, version) events on the real jedi, and random histories over a generated project.
TLC decides (PositionsHist: Design |= Reference; Trace_Positions: every reported Name against the
versions that existed so far); this module only renders, runs, projects and compares."""
import os

from harness import jutil
from harness import c17lib as L

CFG = '''INIT Init
NEXT Next
CONSTANTS
  NVer = %(nver)d
  MaxT = %(maxt)d
  MaxEv = %(maxev)d
  FreshLines = %(fresh)s
  EmitMod = %(mod)d
  EmitRem = %(rem)d
%(invs)s
%(emit)s
CHECK_DEADLOCK FALSE
'''
INVS = ['OneVersion', 'SameEntry']
BASE_T = 1000000000          # mtimes are BASE_T + t (set with os.utime): deterministic, whatever the clock does
HMOD, MAIN = 'hmod.py', 'main.py'
CURSOR = (2, 6)              # on `fun` of `hmod.fun(1)`
BRACKET = (2, 9)             # inside the call brackets


def write_cfg(ctx, name, nver, maxt, maxev, fresh=False, mod=1, rem=0, invs=INVS, emit=False):
    p = os.path.join(ctx.tmp, name)
    with open(p, 'w') as f:
        f.write(CFG % dict(nver=nver, maxt=maxt, maxev=maxev, fresh='TRUE' if fresh else 'FALSE', mod=mod, rem=rem,
                           invs='\n'.join('INVARIANT %s' % i for i in invs),
                           emit='CONSTRAINT EmitPrefix\nCONSTRAINT Emit' if emit else ''))
    return p


def versions_of(res):
    """The texts the spec printed (<<"VERSIONS", json>>): main.py and the pool of hmod.py versions."""
    import json
    tab = json.loads(res.tagged('VERSIONS')[0][0])
    return jutil.dec(tab['main']), [jutil.dec(v) for v in tab['vers']]


def label(hist):
    out = []
    for e in hist:
        out.append('W%d@%d' % (e['v'], e['t']) if e['ev'] == 'write' else 'B%d' % e['v'] if e['ev'] == 'buffer'
                   else 'Q' + e['q'])
    return ' '.join(out)


def put(path, text, t):
    with open(path, 'w', encoding='utf-8', newline='') as f:
        f.write(text)
    os.utime(path, (BASE_T + t, BASE_T + t))


def _sig_names(sigs):
    out = []
    for s in sigs:
        out.append(s)
        try:
            out.extend(s.params)
        except Exception:  # noqa  (C01/C11 territory)
            pass
    return out


def import_queries(s):
    l, c = CURSOR
    return [('goto', lambda: s.goto(l, c)),
            ('goto_follow', lambda: s.goto(l, c, follow_imports=True)),
            ('infer', lambda: s.infer(l, c)),
            ('help', lambda: s.help(l, c)),
            ('get_signatures', lambda: _sig_names(s.get_signatures(*BRACKET))),
            ('get_references', lambda: s.get_references(l, c)),
            ('complete', lambda: s.complete(l, c + 2)[:40])]


def search_queries(proj, word):
    return [('project.search', lambda: list(proj.search(word, all_scopes=True))[:40]),
            ('project.complete_search', lambda: list(proj.complete_search(word, all_scopes=True))[:40])]


def replay_history(arg):
    """spec -> code for one TLC history; also the trace of everything jedi reported into the project."""
    case, base, tag, main_text, vers, word = arg
    import jedi
    d = os.path.join(base, tag)
    os.makedirs(d, exist_ok=True)
    hpath, mpath = os.path.join(d, HMOD), os.path.join(d, MAIN)
    put(mpath, main_text, 0)
    proj = jedi.Project(d)
    hist, reps = case['hist'], case['reps']
    local = {}                  # spec version -> version index within this trace (order of first appearance)
    texts = []
    trace, metas = [], []
    counts, blocked, drift = {}, {}, []
    lab = label(hist)

    def ver(v):
        if v not in local:
            texts.append(vers[v - 1])
            local[v] = len(texts)
        return local[v]

    def take(names, how, exact, rep, shape):
        """observe Names; those in hmod.py are compared with the Design's prediction rep['names']"""
        pred = {jutil.dec(r['name']): r for r in rep['names']}
        got = set()
        for n in names:
            r = jutil.safe(L.observe, n)
            if r[0] == 'exc':
                blocked[r[2]] = blocked.get(r[2], 0) + 1
                continue
            o = r[1]
            if o[0] == 'skip':
                counts['skip:' + o[1]] = counts.get('skip:' + o[1], 0) + 1
                continue
            rec, meta = o[1], o[2]
            if meta['file'] == hpath:
                rec['f'] = 2
            elif meta['file'] == mpath:
                rec['f'] = 1
            else:
                counts['skip:outside-project'] = counts.get('skip:outside-project', 0) + 1
                continue
            rec['exact'] = [exact] if (exact and rec['f'] == 2) else []
            meta.update(how=how, hist=lab, shape=shape if rec['f'] == 2 else meta['shape'])
            trace.append(rec)
            metas.append(meta)
            if rec['f'] != 2:
                continue
            counts['hist_names_into_hmod'] = counts.get('hist_names_into_hmod', 0) + 1
            if exact:
                # several tokens may carry the same text: compare by position below
                continue
            got.add(meta['name'])
            p = pred.get(meta['name'])
            mine = [rec['line'], rec['col'], rec['ds'], rec['de'], rec['lc']]
            if p is None:
                drift.append({'kind': 'history/unpredicted-name', 'history': lab, 'how': how, 'name': meta['name'], 'code': mine})
            elif mine != [p['line'], p['col'], p['ds'], p['de'], p['lc']]:
                drift.append({'kind': 'history/name', 'history': lab, 'how': how, 'name': meta['name'], 'code': mine,
                              'design': [p['line'], p['col'], p['ds'], p['de'], p['lc']], 'design_tree_version': rep['tv']})
            else:
                counts['hist_names_equal_design'] = counts.get('hist_names_equal_design', 0) + 1
        return got

    for i, e in enumerate(hist):
        rep = reps[i]
        if e['ev'] == 'write':
            j = ver(e['v'])
            put(hpath, vers[e['v'] - 1], e['t'])
            trace.append({'ev': 'write', 'f': 2, 'v': j})
            metas.append({'how': 'write', 'hist': lab})
        elif e['ev'] == 'buffer':
            j = ver(e['v'])
            text = vers[e['v'] - 1]
            trace.append({'ev': 'buffer', 'f': 2, 'v': j})
            metas.append({'how': 'buffer', 'hist': lab})
            s = jedi.Script(text, path=hpath, project=proj, environment=jutil.env())
            r = jutil.safe(lambda: s.get_names(all_scopes=True, definitions=True, references=True))
            if r[0] == 'exc':
                blocked['get_names:' + r[2]] = blocked.get('get_names:' + r[2], 0) + 1
                continue
            take(r[1], 'get_names', j, rep, 'history/own-buffer')
            code = sorted([n.line, n.column, jutil.enc(n.name)] for n in r[1])
            design = sorted([p['line'], p['col'], p['name']] for p in rep['names'])
            if code != design:
                drift.append({'kind': 'history/buffer-names', 'history': lab, 'code': code, 'design': design})
            counts['hist_buffer_events'] = counts.get('hist_buffer_events', 0) + 1
        else:
            s = jedi.Script(main_text, path=mpath, project=proj, environment=jutil.env())
            qs = import_queries(s) if e['q'] == 'import' else search_queries(proj, word)
            got = set()
            for how, fn in qs:
                r = jutil.safe(fn)
                if r[0] == 'exc':
                    blocked['%s:%s' % (how, r[2])] = blocked.get('%s:%s' % (how, r[2]), 0) + 1
                    continue
                got |= take(r[1], how, None, rep, 'history/' + (rep['src'] or 'not-loaded'))
            for name in set(jutil.dec(r_['name']) for r_ in rep['names']) - got:
                drift.append({'kind': 'history/missing-name', 'history': lab, 'query': e['q'], 'name': name})
            counts['hist_query_events'] = counts.get('hist_query_events', 0) + 1
            counts['hist_query_src:' + (rep['src'] or 'not-loaded')] = counts.get('hist_query_src:' + (rep['src'] or 'not-loaded'), 0) + 1
    header = L.files_header([mpath, hpath], {mpath: [main_text], hpath: texts})
    return dict(history=lab, trace=[header] + trace, metas=[None] + metas, counts=counts, blocked=blocked, drift=drift,
                sample={'history': lab, 'design': [[r['kind'], r['src'], 'tree of version %d' % r['tv'],
                                                    [[jutil.dec(n['name']), n['line'], n['col']] for n in r['names']]]
                                                   for r in reps],
                        'code_names_into_hmod': [[jutil.dec(t['name']), t['line'], t['col'], jutil.dec(t['lc'])]
                                                 for t in trace if t['ev'] == 'name' and t['f'] == 2][:12]})


# ---------------------------------------------------------------- random histories over a generated project
def _variant(src, rng):
    """A version of a project file: the same program with another header and another encoding."""
    hdr = ''.join(rng.choice(['# h\n', '\n', 'import os\n', '"""doc"""\n']) for _ in range(rng.choice([0, 0, 1, 2, 3])))
    enc = dict(eol=rng.choice(['\n', '\n', '\r\n', '\r']), tabs=rng.random() < 0.3, ff=rng.choice([0.0, 0.0, 0.4]),
               cont=rng.choice([0.0, 0.1]), nofinal=rng.random() < 0.3, mixed=rng.random() < 0.15)
    text = L.reencode(hdr + src, rng, **enc)
    return text if text is not None else hdr + src


def history_scenario(arg):
    """code -> spec: a random history of disk writes (later / same / older mtime), unsaved buffers and queries from
    another buffer over the generated project of c17.project_scenario; every Name is judged by Trace_Positions
    against the versions of the file it points into that existed so far."""
    seed, base, nev = arg
    import random
    import jedi
    from harness.props import c17 as P
    rng = random.Random(seed)
    d = os.path.join(base, 'hproj%d' % seed)
    os.makedirs(os.path.join(d, 'pk'), exist_ok=True)
    srcs = {os.path.join(d, 'deco.py'): P.DECO, os.path.join(d, 'pk', 'sub.py'): P.SUB}
    static = {os.path.join(d, 'pk', '__init__.py'): P.PKINIT}
    bpath = os.path.join(d, 'buf.py')     # not written
    versions = {}
    mtime = {}
    for p, src in srcs.items():
        versions[p] = [_variant(src, rng)]
        mtime[p] = 10
        put(p, versions[p][0], 10)
    for p, src in static.items():
        put(p, src, 10)
    btext = P.BUFFER
    ref, ids = P.oracle_toks(btext)
    btoks = L.ident_tokens(btext)[1]
    proj = jedi.Project(d)
    files = {'_roots': [d], '_order': [bpath] + list(srcs), '_maxlen': 16000, bpath: (1, btext)}
    for k, p in enumerate(srcs):
        files[p] = (k + 2, None)         # versioned: never read at observation time
    trace, metas = [], []
    counts, blocked = {}, {}
    lab = []

    def vindex(p, text):
        if text not in versions[p]:
            versions[p].append(text)
        return versions[p].index(text) + 1

    def pick_version(p):
        if len(versions[p]) > 1 and rng.random() < 0.3:
            return rng.choice(versions[p])
        return _variant(srcs[p], rng)

    kinds = ['write', 'buffer', 'query', 'query']
    for i in range(nev):
        kind = 'query' if i == nev - 1 else rng.choice(kinds)
        p = rng.choice(list(srcs))
        rel = os.path.relpath(p, d)
        if kind == 'write':
            text = pick_version(p)
            mtime[p] = max(1, mtime[p] + rng.choice([0, 0, 1, 1, -1]))
            put(p, text, mtime[p])
            trace.append({'ev': 'write', 'f': files[p][0], 'v': vindex(p, text)})
            metas.append({'how': 'write'})
            lab.append('W:%s#%d@%d' % (rel, trace[-1]['v'], mtime[p]))
        elif kind == 'buffer':
            text = pick_version(p)
            j = vindex(p, text)
            trace.append({'ev': 'buffer', 'f': files[p][0], 'v': j})
            metas.append({'how': 'buffer'})
            lab.append('B:%s#%d' % (rel, j))
            s = jedi.Script(text, path=p, project=proj, environment=jutil.env())
            try:
                vref = P.oracle_toks(text)[0]
            except (SyntaxError, L.Unsupported):
                vref = None
            errnodes = L.has_error_nodes(s._module_node)
            if vref is not None:
                evs, ms, full = P.names_event(s, vref, counts, blocked, text if errnodes else None)
            else:
                evs, ms, full = [], [], jutil.safe(lambda: s.get_names(all_scopes=True, definitions=True, references=True))
                full = full[1] if full[0] == 'ok' else None
            if full is not None:
                e, m = P._name_events(full, 'get_names', files, counts, blocked)
                for rec, meta in zip(e, m):
                    if meta['file'] == p:
                        rec['exact'] = [j]
                    meta['shape'] = 'history/own-buffer'
                evs += e
                ms += m
            for meta in ms:
                meta['hist'] = ' '.join(lab)
            trace += evs
            metas += ms
        else:
            lab.append('Q')
            s = jedi.Script(btext, path=bpath, project=proj, environment=jutil.env())
            _, qev, qmeta, c2, b2 = P.query_all(s, btext, bpath, [d], ids, btoks, rng, 7, files=files)
            r = jutil.safe(lambda: list(proj.search(rng.choice(['thing', 'deco', 'meth', 'Kz', 'wrapper']), all_scopes=True))[:40])
            if r[0] == 'ok':
                e, m = P._name_events(r[1], 'project.search', files, counts, blocked)
                qev += e
                qmeta += m
            for meta in qmeta:
                if meta['file'] in srcs:
                    meta['shape'] = 'history/project-scenario'
                    counts['hist_names_into_versioned_files'] = counts.get('hist_names_into_versioned_files', 0) + 1
                meta['hist'] = ' '.join(lab)
            trace += qev
            metas += qmeta
            for k, v in c2.items():
                counts[k] = counts.get(k, 0) + v
            for k, v in b2.items():
                blocked[k] = blocked.get(k, 0) + v
    allv = dict((p, [files[p][1]]) for p in files['_order'])
    allv.update(versions)
    header = L.files_header(files['_order'], allv)
    return dict(path=bpath, history=' '.join(lab), trace=[header] + trace, metas=[None] + metas, counts=counts,
                blocked=blocked, nversions=sum(len(v) for v in versions.values()))
