#!/bin/sh
# Nothing to build: jedi is pure Python and is imported from /repo's working tree by every check.
# Sanity: the toolchain the checks need is present and every specification parses.
set -e
cd "$(dirname "$0")/.."
test -x /venv/bin/python
test -f /opt/veriftools/tla/tla2tools.jar
for f in spec/*.tla; do
  m=$(basename "$f" .tla)
  (cd spec && java -cp /opt/veriftools/tla/tla2tools.jar:/opt/veriftools/tla/CommunityModules-deps.jar tla2sany.SANY "$m.tla" > /tmp/sany_$$.log 2>&1) || { cat /tmp/sany_$$.log; rm -f /tmp/sany_$$.log; exit 1; }
done
rm -f /tmp/sany_$$.log
echo setup ok
