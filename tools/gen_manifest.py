#!/usr/bin/env python3
import json, os, sys
HERE = os.path.dirname(os.path.dirname(os.path.abspath(__file__)))
sys.path.insert(0, HERE)
import importlib
from harness.meta import NOT_APPLICABLE, HOOK_COMMITS, READY
META = {}
for f in sorted(os.listdir(os.path.join(HERE, 'harness', 'props'))):
    if f.startswith('c') and f.endswith('.py') and f[1:-3].isdigit() and f[:-3].upper() in READY:
        mod = importlib.import_module('harness.props.' + f[:-3])
        if getattr(mod, 'META', None) and f[:-3].upper() in READY:
            META[f[:-3].upper()] = mod.META
props = [json.loads(l)['id'] for l in open(os.path.join(HERE, 'properties.jsonl'))]
checks = []
for pid in props:
    if pid not in META:
        continue
    m = META[pid]
    checks.append({
        'property_id': pid,
        'quick_cmd': './check %s --tier quick' % pid,
        'thorough_cmd': './check %s --tier thorough' % pid,
        'evidence_file': 'evidence/%s.json' % pid,
        'replay_cmd_template': './check %s --replay {path}' % pid,
        'engine': 'tlc',
        'level_claimed': {'category': 'model_checking', 'text': m['text'], 'design_ref': 'DESIGN.md ' + m['design_ref']},
        'level_note': m['note'],
        'technique': m['technique'],
    })
na = [{'property_id': p, 'reason': NOT_APPLICABLE.get(p, 'check not built yet in this round (planned, see DESIGN.md section 5); not claimed')}
      for p in props if p not in META]
man = {
    'version': 1,
    'setup_cmd': './tools/setup.sh',
    'hooks': {
        'guard': 'JEDI_VERIF',
        'enable': 'checks run /repo\'s working tree with JEDI_VERIF=1 (pure Python, nothing to build); sink JEDI_VERIF_TRACE=<file>',
        'baseline_off_cmd': 'cd /repo && env -u JEDI_VERIF -u JEDI_VERIF_TRACE /venv/bin/python -m pytest -ra -q -p no:cacheprovider --timeout=900 --continue-on-collection-errors',
        'source_commits': HOOK_COMMITS,
        'add_only': True,
    },
    'engines': [{'name': 'tlc', 'path': '/opt/veriftools/tla/tla2tools.jar',
                 'serves_properties': [c['property_id'] for c in checks],
                 'kind_free_text': 'TLC 1.8 explicit-state model checker over the TLA+ specifications in spec/; '
                                   'harness/ binds them to /repo by replay (spec->code) and trace validation (code->spec)'}],
    'checks': checks,
    'not_applicable': na,
    'notes': 'All checks: ./check <ID> --tier quick|thorough. Exit 0 held / 1 VIOLATION / 2 machinery failure. '
             'known_findings.json lists recorded genuine defects; see DESIGN.md.',
}
json.dump(man, open(os.path.join(HERE, 'MANIFEST.json'), 'w'), indent=1)
print('MANIFEST.json: %d checks, %d not_applicable' % (len(checks), len(na)))
