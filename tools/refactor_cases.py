import sys, os
repo = sys.argv[1]
sys.path.insert(0, repo)
os.chdir(repo)
import jedi
from jedi.api.environment import SameEnvironment
from test import refactor
env = SameEnvironment()
ok = bad = 0
for case in refactor.collect_dir_tests(os.path.join(repo, 'test', 'refactor'), {}):
    desired = case.get_desired_result()
    try:
        if case.type == 'error':
            try:
                case.refactor(env); out = 'NO ERROR'
            except jedi.RefactoringError as e:
                out = e.args[0]; desired = desired.strip()
        elif case.type == 'text':
            r = case.refactor(env)
            out = ''.join(f.get_new_code() for f in r.get_changed_files().values())
        else:
            out = case.refactor(env).get_diff()
    except Exception as e:
        out = 'EXC %r' % e
    if out == desired:
        ok += 1
    else:
        bad += 1
        print('MISMATCH', case.refactor_type, case.name)
        if '-v' in sys.argv: print(out); print('--- desired'); print(desired)
print('ok', ok, 'bad', bad)
