#!/bin/sh
# tools/mut.sh <ID>...  -- (re)create the scratch worktree /tmp/mut_<ID> = /repo HEAD + seeded/<ID>/patch.diff
for id in "$@"; do
  git -C /repo worktree remove --force /tmp/mut_$id >/dev/null 2>&1
  rm -rf /tmp/mut_$id
  git -C /repo worktree add -q --detach /tmp/mut_$id HEAD || exit 2
  if git -C /tmp/mut_$id apply --3way /verif/seeded/$id/patch.diff 2>/tmp/mut_$id.err || patch -d /tmp/mut_$id -p1 -s < /verif/seeded/$id/patch.diff; then
    git -C /tmp/mut_$id reset -q
    echo "$id: applied on $(git -C /repo rev-parse --short HEAD)"
  else
    echo "$id: PATCH DOES NOT APPLY"; cat /tmp/mut_$id.err
  fi
done
