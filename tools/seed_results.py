#!/usr/bin/env python3
"""tools/seed_results.py -- write seeded/RESULTS.md from seeded/<ID>/meta.json (what was tried, what caught it)."""
import glob
import json
import os

NOTES = {
    'C02': 'missed at first (no generator with several yields in the feature snippets); caught after adding the generator '
           'snippets GB_* to the feature table replayed against CPython',
    'C04': 'missed at first (the emitted slice of class hierarchies was biased by a structured hash); caught after Mro.tla '
           'and emission of all 1700 five-class hierarchies',
    'C05': 'missed at first; caught after the hand-written shape programs (union-typed receiver, overrides, aliases, keyword '
           'arguments, instance attributes) were added to the occurrence sweep; the sweep also found a genuine defect '
           '(keyword-argument names, fixed 4d6449f)',
    'C06': 'missed at first (only expression selections were judged for behaviour); caught after every run of complete '
           'sibling statements of function bodies is extracted and judged; the sweep found three genuine defects in '
           'extract_function (fixed 557ffd0, 16418db, 82224b3); patch and demo were rebased on the repaired code',
    'C08': 'missed at first (random histories never repeat a signature query at the same call site); caught after the '
           'counterexamples of BufCache.tla\'s what-if configurations are replayed on the real code (Trace_BufBehaviour.tla); '
           'the replay found a genuine stale-signature defect for multi-line calls (fixed 735bbaa)',
    'C09': 'missed at first (a new Project per request; import-name completion asked after inference queries); caught after '
           'FileCache.tla got the long-lived Project state (ToggleInit / ResolveTop, what-if ProjectKeepsScriptPaths), the '
           'server keeps one Project per root and the what-if counterexamples are replayed',
    'C11': 'same change as C08 (signature time-cache key); missed at first because every case was analysed without a path; '
           'caught after all cases are analysed as successive texts of one buffer path',
    'C13': 'missed at first (no __get__+__delete__ descriptors); caught after InterpSafe.tla enumerates every subset of '
           '{__get__, __set__, __delete__} on class / base / metaclass crossed with shadowing dict entries; the extension '
           'found a genuine defect (D7: inspect.getdoc runs metaclass descriptors; known finding)',
    'C15': 'missed at first (no import edges); caught after the enumerated graphs are also rendered with one module per node '
           'and plain / from / star import edges, plus import-cycle idioms',
    'C16': 'first seed (C16a: drop the name tie-breaker of sorted_definitions) rejected: it breaks 3 pinned tests; the '
           'second seed (class-level mutable detector state) is caught by the repeatability histories',
    'C17': 'missed at first (single text per file); caught after PositionsHist.tla (file versions x mtimes x unsaved '
           'buffers x queries through import/search) and its replay',
    'C18': 'missed at first (no nested comprehensions); caught after Nesting.tla got nest trees of comprehensions / generator '
           'expressions / lambdas (ParentStrict); that extension found two genuine defects (lambda in a class body: fixed; names in '
           'comprehensions of def/class headers: known finding)',
    # ---- round 2 (a second, different change per property)
    'C02r2': 'missed at first (classmethods only called on the defining class); caught after Infer.tla / PyCore got a subclass S(K) '
             'and an inherited classmethod (NewS, Make) and the feature snippets inherited classmethod / staticmethod / property',
    'C03r2': 'missed at first (expression scopes were only rendered as expression statements); caught after lambdas and '
             'comprehensions are also rendered as the right-hand side of an assignment statement',
    'C07r2': 'missed at first: the touched-line estimate counted the comment / blank lines in front of an inlined definition as '
             'part of it; for inline they are now untouched text',
    'C08r2': 'caught by the what-if counterexample replay after the text family generator-tail (same def line and first '
             'statement, changed yield) had been added while the trial was queued',
    'C11r2': 'missed at first (the cursor was always behind the last argument); caught after the call variant "trailing" '
             '(more arguments after the cursor)',
    'C12r2': 'caught after NoExec.tla got the in-process environment (envkind) and the finder-phase sys.path swap '
             '(FindRestoresAlways what-if), added while the trial was queued',
    'C14r2': 'first trial ended in a machinery failure (exit 2, not a verdict): the churn scenario read the private `_used` flag '
             'the change removes; the scenario no longer depends on it and reports states-not-released',
    'C15r2': 'missed at first: the scaling families stopped at n=32 in the quick tier AND the harness itself raised the '
             'interpreter recursion limit in its workers, which masked what jedi does at import; families now go to 64 (pair and '
             'attr_chain added) and the limit is left to jedi',
    'C16r2': 'caught by the direct observation of every setting / switch after every query (Switch.tla SwitchRestored) and by '
             'the two-module dynamic-parameter source, both added while the trial was queued',
    # ---- round 3 (ten properties, a third change each, aimed at combinations of conditions)
    'C03r3': 'missed at first (no default values in lambda headers); caught after lambda headers got defaults (huse items) in '
             'Scoping.tla and in the random programs',
    'C04r3': 'missed at first (instance attributes were only assigned directly in __init__); caught after the hierarchies '
             'assign them through helper methods, closures over self, loop targets and tuple targets',
    'C05r3': 'missed at first: the failing inputs fall into the known-finding families param-rebound / class-attr, which hid '
             'the additional breakage; caught after two shape programs (class attribute computed from the module variable of the '
             'same name, parameter re-bound from itself) whose unchanged-tree deviations are listed by EXACT key',
    'C06r3': 'missed at first (no coroutines in the templates); caught after the template with undecorated / decorated / '
             'nested / static async methods and a module-level async def',
    'C10r3': 'missed at first (sys.path order always alphabetical, clashes across roots rare); caught after the reversed root '
             'order shape in Imports.tla and mirrored nodes across the roots in the random trees',
    'C17r3': 'the signature time-cache key made comparable again (as C08 / C11 round 1): missed by the C17 check at first (its '
             'histories asked get_names / imports / search, not signatures at one call site) while the C08 and C11 checks caught '
             'it; C17 now has buffer histories with get_signatures after every edit, judged by Trace_SigFaithful.tla',
    'C01r3': 'missed at first (no buffer whose values mix objects of the buffer with builtins); caught after two such programs '
             'were added to Text.tla (the unedited programs are now always emitted); adding them exposed two more genuine crashes '
             'on the unchanged tree (get_type_hint of a function passed to itself; completion in the blanks after a dot), both fixed',
    'C07r3': 'missed at first (no module of the project referred to itself, so the renamed file never changed); caught after '
             'helper_mod / pkg_one.sub_mod import themselves by absolute name; the new inputs also showed that the FilesDisagree '
             'clause was too strict for changed files below a renamed directory (false alarm of the check, corrected)',
    'C08r3': 'caught as it stood (random editing histories with block indents / pastes vs fresh processes)',
    'C09r3': 'caught as it stood (one long-lived helper per server process: stale directory listing)',
    'C12r3': 'caught as it stood (auto-import name with a project-only explicit sys_path)',
    'C14r3': 'caught as it stood (crash campaign: KeyError instead of InternalError after the re-spawn)',
    'C16r3': 'third time the added_sys_path aliasing; caught by the package-project source (import completion after import '
             'inference) added while the trial was queued',
    'C18r3': 'missed at first (the default project root cached per directory: full_name keeps the old module path after '
             '__init__.py files are added); caught after the full_name package-history leg (Trace_FullNameHist.tla)',
    'C19r3': 'caught as it stood (adjacent ignored directories)',
    'C20r3': 'caught as it stood (duplicate entries: order clause)',
    'C20r2': 'same aliasing as C09 (round 1); caught by the path clauses; the settings-unchanged-by-use clauses (p2 / rt2) '
             'were added as well',
}

rows = []
for d in sorted(glob.glob('/verif/seeded/C*')):
    pid = os.path.basename(d)
    m = json.load(open(os.path.join(d, 'meta.json')))
    checks = m.get('checks', {})
    caught_by = [c for c, r in checks.items() if r.get('exit') == 1]
    keys = []
    for c in caught_by:
        keys += checks[c].get('violation_keys', [])[:3]
    rows.append((pid, m.get('summary', '').replace('\n', ' '), m.get('confirmed'), caught_by, keys, m.get('needs', '')))

with open('/verif/seeded/RESULTS.md', 'w') as f:
    f.write('# Seeded changes: which check catches which change\n\n'
            'Each change was written by a fresh sub-agent that saw only the property text and its own scratch worktree.\n'
            'A change is kept only after confirmation: `demo.py` exits 0 on /repo and 1 on the changed tree, and the pinned\n'
            'suite still passes on the changed tree (264/264).  `tools/try_seed.py <ID>` re-creates the worktree\n'
            '(/repo HEAD + seeded/<ID>/patch.diff), repeats the confirmation and runs `./check <ID> --tier quick` with\n'
            'VERIF_REPO pointing at it; the outcome is recorded in seeded/<ID>/meta.json.\n\n'
            '| id | change | confirmed | caught by (quick tier) | violation keys |\n|---|---|---|---|---|\n')
    for pid, summ, conf, by, keys, needs in rows:
        f.write('| %s | %s | %s | %s | %s |\n' % (pid, summ[:300], 'yes' if conf else 'NO', ', '.join('check ' + c for c in by) or '**missed**',
                                                 '<br>'.join('`%s`' % k for k in keys[:4])))
    f.write('\n## What had to be strengthened\n\n')
    for pid in sorted(NOTES, key=lambda x: (len(x) > 3, x)):
        f.write('* **%s** - %s\n' % (pid, NOTES[pid]))
    f.write('\nRejected seed: `_rejected/C16a` (breaks the pinned suite).\n')
print(open('/verif/seeded/RESULTS.md').read()[:3000])
