#!/usr/bin/env python3
"""Run the repository's baseline suite with the hook guard OFF and compare with BASELINE.json."""
import json, os, subprocess, sys, tempfile
import xml.etree.ElementTree as ET
repo = os.environ.get('VERIF_REPO', '/repo')
base = json.load(open('/root/.vp/BASELINE.json'))
want = set(base['stable_pass'])
fd, xml = tempfile.mkstemp(suffix='.xml'); os.close(fd)
env = dict(os.environ); env.pop('JEDI_VERIF', None); env.pop('JEDI_VERIF_TRACE', None)
if len(sys.argv) > 1 and sys.argv[1] == '--guard-on':
    env['JEDI_VERIF'] = '1'
subprocess.run(['/venv/bin/python', '-m', 'pytest', '-ra', '-q', '-p', 'no:cacheprovider', '--timeout=900',
                '--continue-on-collection-errors', '--junitxml=' + xml], cwd=repo, env=env,
               stdout=subprocess.DEVNULL, stderr=subprocess.DEVNULL)
passed = set()
for tc in ET.parse(xml).getroot().iter('testcase'):
    if not any(c.tag in ('failure', 'error', 'skipped') for c in tc):
        passed.add('%s::%s' % (tc.get('classname'), tc.get('name')))
os.unlink(xml)
missing = sorted(want - passed)
print('baseline: %d/%d stable tests pass' % (len(want & passed), len(want)))
for m in missing[:20]:
    print('  MISSING', m)
sys.exit(1 if missing else 0)
