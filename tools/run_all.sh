#!/bin/sh
# usage: tools/run_all.sh quick|thorough [ids...]   -- runs the registered checks one after another, prints rc and wall
tier=${1:-quick}; shift
ids=${@:-C01 C02 C03 C04 C05 C06 C07 C08 C09 C10 C11 C12 C13 C14 C15 C16 C17 C18 C19 C20}
mkdir -p out/logs
for id in $ids; do
  s=$(date +%s)
  ./check $id --tier $tier > out/logs/${id}_$tier.log 2>&1
  rc=$?
  e=$(date +%s)
  echo "$id $tier rc=$rc wall=$((e-s))s $(grep -c '^KNOWN-FINDING' out/logs/${id}_$tier.log) known $(grep -c '^VIOLATION' out/logs/${id}_$tier.log) violations"
done
