#!/venv/bin/python
"""Debug helper: re-run the C01 replay files whose key contains one of the given substrings."""
import glob
import json
import sys
import traceback

sys.path.insert(0, '/verif')
from harness import core, jutil  # noqa: E402
core.setup_repo_import()
from harness.props import c01  # noqa: E402

seen = set()
for f in glob.glob('/verif/out/replays/C01/*.json'):
    d = json.load(open(f))
    k = d['key']
    if k in seen or not any(x in k for x in sys.argv[1:]):
        continue
    seen.add(k)
    r = d['replay']
    print('=======', k, r['origin'], r['method'], r['line'], r['column'])
    path = r['origin']['path'] if isinstance(r['origin'], dict) else None
    s = jutil.script(r['source'], path=path)
    try:
        if r['method'] == 'get_names':
            res = s.get_names(all_scopes=True, definitions=True, references=True)
        elif r['method'] == 'get_context':
            res = [s.get_context(r['line'], r['column'])]
        elif r['method'] in ('search', 'complete_search'):
            res = list(getattr(s, r['method'])('a'))
        elif r['method'] == 'get_syntax_errors':
            res = s.get_syntax_errors()
        else:
            res = getattr(s, r['method'])(r['line'], r['column'])
        for x in res:
            c01.touch(x)
        print('no crash')
    except Exception:
        traceback.print_exc(limit=-6)
