#!/usr/bin/env python3
"""tools/try_seed.py <ID> [<check ids>...]  -- confirm a seeded change and run the checks against it.

The change lives in the scratch worktree /tmp/mut_<ID> (left applied there by the sub-agent) and in
/tmp/seeded/<ID>/{patch.diff,demo.py,meta.json}.  Steps: demo on /repo (must exit 0) and on the changed tree (must
exit 1); the hooks-off baseline on the changed tree (264/264); ./check for the property (and any other ids given)
with VERIF_REPO pointing at the changed tree.  Everything is recorded in /verif/seeded/<ID>/meta.json.
"""
import json
import os
import shutil
import subprocess
import sys
import time

pid = sys.argv[1]
checks = sys.argv[2:] or [pid[:3]]
src = '/tmp/seeded/%s' % pid
wt = '/tmp/mut_%s' % pid
dst = '/verif/seeded/%s' % pid
os.makedirs(dst, exist_ok=True)
for f in ('patch.diff', 'demo.py', 'meta.json'):
    if os.path.exists(os.path.join(src, f)) and not os.path.exists(os.path.join(dst, f)):
        shutil.copy(os.path.join(src, f), os.path.join(dst, f))
meta = json.load(open(os.path.join(dst, 'meta.json')))
if os.path.exists(os.path.join('/verif/seeded', pid, 'patch.diff')):
    # re-create the worktree from /repo HEAD + the kept patch (the patch in /verif/seeded is the reference)
    subprocess.run(['/verif/tools/mut.sh', pid], check=False)


def run(cmd, env=None, timeout=3000, cwd=None):
    e = dict(os.environ)
    e.update(env or {})
    p = subprocess.run(cmd, shell=True, env=e, cwd=cwd, stdout=subprocess.PIPE, stderr=subprocess.STDOUT, timeout=timeout)
    return p.returncode, p.stdout.decode('utf-8', 'replace')


ran = []
rc0, o0 = run('/venv/bin/python %s/demo.py' % dst, {'PYTHONPATH': '/repo'}, timeout=600)
rc1, o1 = run('/venv/bin/python %s/demo.py' % dst, {'PYTHONPATH': wt}, timeout=600)
ran.append('demo on /repo: exit %d; demo on changed tree: exit %d' % (rc0, rc1))
print(ran[-1])
# the patch must be what is applied in the worktree
rcd, od = run('git -C %s diff' % wt)
applied = od.strip() == open(os.path.join(dst, 'patch.diff')).read().strip()
rcb, ob = run('python3 /verif/tools/baseline_check.py', {'VERIF_REPO': wt})
ran.append('baseline on changed tree: %s' % ob.strip().split('\n')[0])
print(ran[-1])
meta['confirmed'] = bool(rc0 == 0 and rc1 != 0 and rcb == 0)
meta['patch_is_worktree_diff'] = applied
results = {}
for c in checks:
    t0 = time.time()
    rc, out = run('./check %s --tier quick' % c, {'VERIF_REPO': wt}, cwd='/verif')
    viol = [l for l in out.split('\n') if l.startswith('VIOLATION') or l.startswith('    ')]
    keys = sorted(set(l.strip().split(' :: ')[0] for l in out.split('\n') if l.startswith('    ') and ' :: ' in l))
    drift = [l for l in out.split('\n') if 'done:' in l]
    results[c] = {'exit': rc, 'violation_keys': keys[:12], 'summary': drift[-1].strip() if drift else out[-300:],
                  'wall_s': round(time.time() - t0)}
    ran.append('VERIF_REPO=%s ./check %s --tier quick -> exit %d' % (wt, c, rc))
    print(ran[-1], keys[:5])
meta['what_was_run'] = ran
meta['checks'] = results
meta['caught'] = any(r['exit'] == 1 for r in results.values())
json.dump(meta, open(os.path.join(dst, 'meta.json'), 'w'), indent=1)
print('confirmed=%s caught=%s' % (meta['confirmed'], meta['caught']))
